#!/bin/bash
# Run once after a fresh restore, offline. Builds the shim, the CLI, the driver and warms the oracle crate.
set -e
cd "$(dirname "$0")"
export CARGO_NET_OFFLINE=true PYTHONDONTWRITEBYTECODE=1
mkdir -p evidence witness target
gcc -O2 -shared -fPIC -o shim/hashseed.so shim/hashseed.c
python3 -m vh.setup
