//! Thin driver over the public API of the tauri-typegen library under test.
//! It prints raw results; the oracles live in /verif/vh (Python) except for the
//! C20 graph oracle (module `c20`), which is independent bitmask code kept here
//! only because 8M results are too many to stream.
mod c20;

use std::panic;
use tauri_typegen::{generate_from_config, BuildSystem, GenerateConfig};

fn load_cfg(path: &str) -> GenerateConfig {
    let txt = std::fs::read_to_string(path).expect("read settings");
    serde_json::from_str(&txt).expect("settings json")
}

fn main() {
    let args: Vec<String> = std::env::args().collect();
    let cmd = args.get(1).map(|s| s.as_str()).unwrap_or("");
    match cmd {
        "gen" => {
            let cfg = load_cfg(&args[2]);
            let r = panic::catch_unwind(|| generate_from_config(&cfg).map_err(|e| e.to_string()));
            match r {
                Ok(Ok(files)) => {
                    println!("RESULT ok {}", serde_json::to_string(&files).unwrap());
                }
                Ok(Err(e)) => {
                    println!("RESULT err {}", e.replace('\n', " "));
                    std::process::exit(1);
                }
                Err(_) => {
                    println!("RESULT panic");
                    std::process::exit(101);
                }
            }
        }
        "build" => {
            let r = panic::catch_unwind(|| {
                BuildSystem::generate_at_build_time().map_err(|e| e.to_string())
            });
            match r {
                Ok(Ok(())) => println!("RESULT ok"),
                Ok(Err(e)) => {
                    println!("RESULT err {}", e.replace('\n', " "));
                    std::process::exit(1);
                }
                Err(_) => {
                    println!("RESULT panic");
                    std::process::exit(101);
                }
            }
        }
        "save-tauri" => {
            let cfg = load_cfg(&args[2]);
            match cfg.save_to_tauri_config(&args[3]) {
                Ok(()) => println!("RESULT ok"),
                Err(e) => {
                    println!("RESULT err {}", e.to_string().replace('\n', " "));
                    std::process::exit(1);
                }
            }
        }
        "load-tauri" => match GenerateConfig::from_tauri_config(&args[2]) {
            Ok(Some(c)) => println!("RESULT some {}", serde_json::to_string(&c).unwrap()),
            Ok(None) => println!("RESULT none"),
            Err(e) => {
                println!("RESULT err {}", e.to_string().replace('\n', " "));
                std::process::exit(1);
            }
        },
        "from-file" => match GenerateConfig::from_file(&args[2]) {
            Ok(c) => println!("RESULT some {}", serde_json::to_string(&c).unwrap()),
            Err(e) => {
                println!("RESULT err {}", e.to_string().replace('\n', " "));
                std::process::exit(1);
            }
        },
        "analyze" => {
            // analysis layer only (no template engine): used under Miri, where constructing Tera costs minutes
            let dir = args[2].clone();
            let r = panic::catch_unwind(move || {
                let mut a = tauri_typegen::analysis::CommandAnalyzer::new();
                let cmds = a.analyze_project(&dir).map_err(|e| e.to_string())?;
                Ok::<(usize, usize, usize), String>((cmds.len(), a.get_discovered_structs().len(), a.get_discovered_events().len()))
            });
            match r {
                Ok(Ok((c, s, e))) => println!("RESULT ok commands={} structs={} events={}", c, s, e),
                Ok(Err(e)) => {
                    println!("RESULT err {}", e.replace('\n', " "));
                    std::process::exit(1);
                }
                Err(_) => {
                    println!("RESULT panic");
                    std::process::exit(101);
                }
            }
        }
        "c20" => c20::main(&args[2..]),
        _ => {
            eprintln!("usage: vdriver gen|build|save-tauri|load-tauri|from-file|c20 ...");
            std::process::exit(2);
        }
    }
}
