//! C20 workload + oracle. Feeds graphs to the REAL routines
//! (`TypeDependencyGraph::topological_sort_types`, `DependencyResolver::resolve_build_order`)
//! and judges each returned sequence with an independent bitmask closure/SCC oracle.
//!
//! usage:
//!   vdriver c20 exh  <n> <lo> <hi> <repeats>        graphs = all n*n adjacency matrices with id in [lo,hi)
//!   vdriver c20 rand <seed> <count> <maxn> <repeats>
//! Output: a single JSON line on stdout (counts, distinct-order statistics, violations).
use std::collections::{HashMap, HashSet};
use tauri_typegen::analysis::dependency_graph::TypeDependencyGraph;
use tauri_typegen::build::dependency_resolver::{
    Dependency, DependencyNode, DependencyNodeType, DependencyResolver, DependencyType,
};

const MAXV: usize = 20;

struct Stats {
    graphs: u64,
    cyclic: u64,
    acyclic: u64,
    sort_calls: u64,
    resolver_calls: u64,
    resolver_ok: u64,
    resolver_err: u64,
    history_steps: u64,
    cases: u64,             // (graph, subset) pairs
    multi_order_cases: u64, // pairs for which >1 distinct result order was observed
    max_orders: u64,
    sum_orders: u64,
    violations: Vec<String>,
    nviol: u64,
}

fn name(i: usize) -> String {
    format!("T{}", i)
}

fn closure(n: usize, adj: &[u32]) -> Vec<u32> {
    // reachp[u] = nodes reachable from u by >= 1 edge
    let mut r: Vec<u32> = adj.to_vec();
    for k in 0..n {
        for u in 0..n {
            if r[u] >> k & 1 == 1 {
                r[u] |= r[k];
            }
        }
    }
    // iterate to fixpoint (cheap, n small) to be safe about ordering effects
    loop {
        let mut ch = false;
        for u in 0..n {
            let mut m = r[u];
            for v in 0..n {
                if r[u] >> v & 1 == 1 {
                    m |= r[v];
                }
            }
            if m != r[u] {
                r[u] = m;
                ch = true;
            }
        }
        if !ch {
            break;
        }
    }
    r
}

fn describe(n: usize, adj: &[u32]) -> String {
    let mut e = Vec::new();
    for u in 0..n {
        for v in 0..n {
            if adj[u] >> v & 1 == 1 {
                e.push(format!("{}->{}", u, v));
            }
        }
    }
    format!("n={} edges=[{}]", n, e.join(","))
}

fn check_graph(n: usize, adj: &[u32], subsets: &[u32], repeats: u32, st: &mut Stats, dup_edges: bool) {
    let reachp = closure(n, adj);
    let cyclic = (0..n).any(|u| reachp[u] >> u & 1 == 1);
    st.graphs += 1;
    if cyclic {
        st.cyclic += 1
    } else {
        st.acyclic += 1
    }
    let same_scc = |u: usize, v: usize| u == v || (reachp[u] >> v & 1 == 1 && reachp[v] >> u & 1 == 1);

    // ---- type-ordering routine -------------------------------------------------
    for &s in subsets {
        let mut expect = s;
        for u in 0..n {
            if s >> u & 1 == 1 {
                expect |= reachp[u];
            }
        }
        let mut orders: HashSet<u64> = HashSet::new();
        for rep in 0..repeats {
            let mut g = TypeDependencyGraph::new();
            for u in 0..n {
                let deps: HashSet<String> = (0..n).filter(|v| adj[u] >> v & 1 == 1).map(name).collect();
                // odd repeats leave out entries for leaf nodes (unresolved types have no entry)
                if !(rep % 2 == 1 && deps.is_empty()) {
                    g.add_dependencies(name(u), deps);
                }
            }
            let req: HashSet<String> = (0..n).filter(|u| s >> u & 1 == 1).map(name).collect();
            let out = g.topological_sort_types(&req);
            st.sort_calls += 1;
            let mut pos = [usize::MAX; MAXV];
            let mut bad: Option<String> = None;
            let mut seen = 0u32;
            let mut code = 0u64;
            for (i, nm) in out.iter().enumerate() {
                let idx = nm[1..].parse::<usize>().unwrap_or(MAXV);
                if idx >= n {
                    bad = Some(format!("unknown-name {}", nm));
                    break;
                }
                if seen >> idx & 1 == 1 {
                    bad = Some(format!("duplicate {}", nm));
                    break;
                }
                seen |= 1 << idx;
                pos[idx] = i;
                code = code.wrapping_mul(23).wrapping_add(idx as u64 + 1);
            }
            if bad.is_none() && seen != expect {
                bad = Some(format!(
                    "not-a-permutation-of-reach missing={:#b} extra={:#b}",
                    expect & !seen,
                    seen & !expect
                ));
            }
            if bad.is_none() {
                'o: for u in 0..n {
                    if seen >> u & 1 == 0 {
                        continue;
                    }
                    for v in 0..n {
                        if adj[u] >> v & 1 == 1 && !same_scc(u, v) && pos[v] > pos[u] {
                            bad = Some(format!("dependency-after-dependent {}->{}", u, v));
                            break 'o;
                        }
                    }
                }
            }
            if let Some(b) = bad {
                st.nviol += 1;
                if st.violations.len() < 20 {
                    st.violations.push(format!(
                        "sort {} subset={:#b} result={:?} :: {}",
                        describe(n, adj),
                        s,
                        out,
                        b
                    ));
                }
            }
            orders.insert(code);
        }
        st.cases += 1;
        let k = orders.len() as u64;
        if k > 1 {
            st.multi_order_cases += 1;
        }
        st.sum_orders += k;
        if k > st.max_orders {
            st.max_orders = k;
        }
    }

    // ---- build-order resolver --------------------------------------------------
    // every second repetition gives pairs of nodes one name (a `Config` in two modules): a node is its name, path and kind together
    for rep in 0..repeats.max(2) {
        let shared_names = rep % 2 == 1;
        let mk = |i: usize| DependencyNode {
            name: if shared_names { name(i / 2) } else { name(i) },
            path: format!("src/{}.rs", i),
            node_type: match (i + rep as usize) % 5 {
                0 => DependencyNodeType::Struct,
                1 => DependencyNodeType::Enum,
                2 => DependencyNodeType::Command,
                3 => DependencyNodeType::Type,
                _ => DependencyNodeType::Module,
            },
        };
        // every kind of edge is an ordering constraint
        let kind = |u: usize, v: usize| match (u * 3 + v + rep as usize) % 5 {
            0 => DependencyType::Field,
            1 => DependencyType::Direct,
            2 => DependencyType::Variant,
            3 => DependencyType::Import,
            _ => DependencyType::Generic,
        };
        let mut r = DependencyResolver::new();
        for u in 0..n {
            r.add_node(mk(u));
        }
        for u in 0..n {
            for v in 0..n {
                if adj[u] >> v & 1 == 1 {
                    let d = Dependency { from: mk(u), to: mk(v), dependency_type: kind(u, v) };
                    r.add_dependency(d.clone());
                    if dup_edges && (u + v + rep as usize) % 3 == 0 {
                        r.add_dependency(d); // duplicate edge
                    }
                }
            }
        }
        let res = r.resolve_build_order();
        st.resolver_calls += 1;
        let mut bad: Option<String> = None;
        match res {
            Ok(order) => {
                st.resolver_ok += 1;
                if cyclic {
                    bad = Some("ok-on-cyclic-graph".into());
                } else {
                    let key = |u: usize| format!("src/{}.rs", u);
                    let mut pos: HashMap<String, usize> = HashMap::new();
                    for (i, nd) in order.iter().enumerate() {
                        if pos.insert(nd.path.clone(), i).is_some() {
                            bad = Some(format!("duplicate-node {}", nd.name));
                        }
                    }
                    if bad.is_none() && (order.len() != n || (0..n).any(|u| !pos.contains_key(&key(u)))) {
                        bad = Some("missing-node".into());
                    }
                    if bad.is_none() {
                        'p: for u in 0..n {
                            for v in 0..n {
                                if adj[u] >> v & 1 == 1 && pos[&key(v)] > pos[&key(u)] {
                                    bad = Some(format!("not-topological {}->{}", u, v));
                                    break 'p;
                                }
                            }
                        }
                    }
                }
            }
            Err(e) => {
                st.resolver_err += 1;
                if !cyclic {
                    bad = Some(format!("err-on-acyclic-graph ({})", e));
                } else if !e.to_string().to_lowercase().contains("circular") {
                    bad = Some(format!("wrong-error-kind ({})", e));
                }
            }
        }
        if let Some(b) = bad {
            st.nviol += 1;
            if st.violations.len() < 20 {
                st.violations.push(format!("resolver{} {} :: {}", if shared_names { " (two nodes per name)" } else { "" }, describe(n, adj), b));
            }
        }
    }
}

/// The same two routines used the way a long-lived caller uses them: ONE instance that is grown step by step and asked
/// again after every step. Every answer is judged against the graph as it stands at that moment, so an answer that is
/// remembered across a mutation (or state left behind by an earlier call) shows up as a wrong answer for the current graph.
fn check_history(n: usize, adj: &[u32], st: &mut Stats, variant: u32) {
    // ---- type-ordering routine: entries arrive one at a time
    let mut g = TypeDependencyGraph::new();
    let mut padj = vec![0u32; n];
    let order: Vec<usize> = if variant % 2 == 0 { (0..n).collect() } else { (0..n).rev().collect() };
    for &u in &order {
        let deps: HashSet<String> = (0..n).filter(|v| adj[u] >> v & 1 == 1).map(name).collect();
        g.add_dependencies(name(u), deps);
        padj[u] = adj[u];
        let reach = closure(n, &padj);
        let s: u32 = (1u32 << n) - 1;
        let req: HashSet<String> = (0..n).map(name).collect();
        let out = g.topological_sort_types(&req);
        st.sort_calls += 1;
        st.history_steps += 1;
        let mut seen = 0u32;
        let mut pos = [usize::MAX; MAXV];
        let mut bad: Option<String> = None;
        for (i, nm) in out.iter().enumerate() {
            let idx = nm[1..].parse::<usize>().unwrap_or(MAXV);
            if idx >= n || seen >> idx & 1 == 1 {
                bad = Some(format!("unknown-or-duplicate {}", nm));
                break;
            }
            seen |= 1 << idx;
            pos[idx] = i;
        }
        if bad.is_none() && seen != s {
            bad = Some(format!("not-a-permutation-of-reach missing={:#b}", s & !seen));
        }
        if bad.is_none() {
            'o: for a in 0..n {
                for b in 0..n {
                    let same = a == b || (reach[a] >> b & 1 == 1 && reach[b] >> a & 1 == 1);
                    if padj[a] >> b & 1 == 1 && !same && pos[b] > pos[a] {
                        bad = Some(format!("dependency-after-dependent {}->{}", a, b));
                        break 'o;
                    }
                }
            }
        }
        if let Some(b) = bad {
            st.nviol += 1;
            if st.violations.len() < 20 {
                st.violations.push(format!("sort-history {} after-adding-entry {} result={:?} :: {} (same instance, asked after every added entry)", describe(n, &padj), u, out, b));
            }
        }
    }
    // ---- build-order resolver: nodes and edges arrive one at a time
    let mk = |i: usize| DependencyNode {
        name: name(i),
        path: format!("src/{}.rs", i),
        node_type: if i % 2 == 0 { DependencyNodeType::Struct } else { DependencyNodeType::Enum },
    };
    let mut r = DependencyResolver::new();
    let mut present = 0u32;
    let mut eadj = vec![0u32; n];
    // steps: (is_edge, u, v)
    let mut steps: Vec<(bool, usize, usize)> = Vec::new();
    let edges: Vec<(usize, usize)> = (0..n).flat_map(|u| (0..n).filter(move |v| adj[u] >> v & 1 == 1).map(move |v| (u, v))).collect();
    match variant % 3 {
        0 => {
            for &(u, v) in &edges { steps.push((true, u, v)); }
            for u in 0..n { steps.push((false, u, 0)); }
        }
        1 => {
            for u in 0..n { steps.push((false, u, 0)); }
            for &(u, v) in edges.iter().rev() { steps.push((true, u, v)); }
        }
        _ => {
            let mut ei = edges.iter();
            for u in 0..n {
                steps.push((false, u, 0));
                if let Some(&(a, b)) = ei.next() { steps.push((true, a, b)); }
            }
            for &(a, b) in ei { steps.push((true, a, b)); }
        }
    }
    for (is_edge, u, v) in steps {
        if is_edge {
            r.add_dependency(Dependency { from: mk(u), to: mk(v), dependency_type: DependencyType::Field });
            present |= 1 << u | 1 << v;
            eadj[u] |= 1 << v;
        } else {
            r.add_node(mk(u));
            present |= 1 << u;
        }
        let reach = closure(n, &eadj);
        let cyclic = (0..n).any(|a| reach[a] >> a & 1 == 1);
        let res = r.resolve_build_order();
        st.resolver_calls += 1;
        st.history_steps += 1;
        let mut bad: Option<String> = None;
        match res {
            Ok(order) => {
                st.resolver_ok += 1;
                if cyclic {
                    bad = Some("ok-on-cyclic-graph".into());
                } else {
                    let mut seen = 0u32;
                    let mut pos = [usize::MAX; MAXV];
                    for (i, nd) in order.iter().enumerate() {
                        let idx = nd.name[1..].parse::<usize>().unwrap_or(MAXV);
                        if idx >= n || seen >> idx & 1 == 1 {
                            bad = Some(format!("unknown-or-duplicate-node {}", nd.name));
                            break;
                        }
                        seen |= 1 << idx;
                        pos[idx] = i;
                    }
                    if bad.is_none() && seen != present {
                        bad = Some(format!("node-set-differs missing={:#b} extra={:#b}", present & !seen, seen & !present));
                    }
                    if bad.is_none() {
                        'p: for a in 0..n {
                            for b in 0..n {
                                if eadj[a] >> b & 1 == 1 && pos[b] > pos[a] {
                                    bad = Some(format!("not-topological {}->{}", a, b));
                                    break 'p;
                                }
                            }
                        }
                    }
                }
            }
            Err(e) => {
                st.resolver_err += 1;
                if !cyclic {
                    bad = Some(format!("err-on-acyclic-graph ({})", e));
                }
            }
        }
        if let Some(b) = bad {
            st.nviol += 1;
            if st.violations.len() < 20 {
                st.violations.push(format!(
                    "resolver-history {} nodes={:#b} after {} :: {} (same instance, asked after every mutation)",
                    describe(n, &eadj), present, if is_edge { format!("add_dependency {}->{}", u, v) } else { format!("add_node {}", u) }, b
                ));
            }
        }
    }
}

struct Rng(u64);
impl Rng {
    fn next(&mut self) -> u64 {
        self.0 = self.0.wrapping_add(0x9E3779B97F4A7C15);
        let mut z = self.0;
        z = (z ^ (z >> 30)).wrapping_mul(0xBF58476D1CE4E5B9);
        z = (z ^ (z >> 27)).wrapping_mul(0x94D049BB133111EB);
        z ^ (z >> 31)
    }
}

pub fn main(args: &[String]) {
    let mut st = Stats {
        graphs: 0, cyclic: 0, acyclic: 0, sort_calls: 0, resolver_calls: 0, resolver_ok: 0, resolver_err: 0, history_steps: 0,
        cases: 0, multi_order_cases: 0, max_orders: 0, sum_orders: 0, violations: vec![], nviol: 0,
    };
    let mode = args.get(0).map(|s| s.as_str()).unwrap_or("");
    let mut sample = String::new();
    match mode {
        "exh" => {
            let n: usize = args[1].parse().unwrap();
            let lo: u64 = args[2].parse().unwrap();
            let hi: u64 = args[3].parse().unwrap();
            let repeats: u32 = args[4].parse().unwrap();
            let subsets: Vec<u32> = (1..(1u32 << n)).collect();
            for id in lo..hi {
                let adj: Vec<u32> = (0..n).map(|u| ((id >> (u * n)) & ((1 << n) - 1)) as u32).collect();
                if id == lo {
                    sample = describe(n, &adj);
                }
                check_graph(n, &adj, &subsets, repeats, &mut st, id % 2 == 1);
                if n <= 3 || id % 7 == 0 {
                    check_history(n, &adj, &mut st, (id % 6) as u32);
                }
            }
        }
        "rand" => {
            let seed: u64 = args[1].parse().unwrap();
            let count: u64 = args[2].parse().unwrap();
            let maxn: usize = args[3].parse().unwrap();
            let repeats: u32 = args[4].parse().unwrap();
            let mut rng = Rng(seed);
            for i in 0..count {
                let n = 2 + (rng.next() as usize) % (maxn - 1);
                let dens = 1 + rng.next() % 6; // edge probability dens/16
                let dag = rng.next() % 2 == 0;
                let mut adj = vec![0u32; n];
                for u in 0..n {
                    for v in 0..n {
                        if rng.next() % 16 < dens && (!dag || v > u) {
                            adj[u] |= 1 << v;
                        }
                    }
                }
                // relabel through a random permutation so DAGs are not index-ordered
                let mut perm: Vec<usize> = (0..n).collect();
                for k in (1..n).rev() {
                    let j = (rng.next() as usize) % (k + 1);
                    perm.swap(k, j);
                }
                let mut padj = vec![0u32; n];
                for u in 0..n {
                    for v in 0..n {
                        if adj[u] >> v & 1 == 1 {
                            padj[perm[u]] |= 1 << perm[v];
                        }
                    }
                }
                let mut subsets = vec![(1u32 << n) - 1];
                for _ in 0..3 {
                    let s = (rng.next() as u32) & ((1 << n) - 1);
                    if s != 0 {
                        subsets.push(s);
                    }
                }
                if i == 0 {
                    sample = describe(n, &padj);
                }
                check_graph(n, &padj, &subsets, repeats, &mut st, i % 2 == 1);
                check_history(n, &padj, &mut st, (i % 6) as u32);
            }
        }
        _ => {
            eprintln!("c20: bad mode");
            std::process::exit(2);
        }
    }
    let viol: Vec<String> = st.violations.iter().map(|v| format!("{:?}", v)).collect();
    println!(
        "{{\"graphs\":{},\"cyclic\":{},\"acyclic\":{},\"sort_calls\":{},\"resolver_calls\":{},\"resolver_ok\":{},\"resolver_err\":{},\"history_steps\":{},\"cases\":{},\"multi_order_cases\":{},\"max_orders\":{},\"sum_orders\":{},\"nviol\":{},\"sample\":{:?},\"violations\":[{}]}}",
        st.graphs, st.cyclic, st.acyclic, st.sort_calls, st.resolver_calls, st.resolver_ok, st.resolver_err, st.history_steps,
        st.cases, st.multi_order_cases, st.max_orders, st.sum_orders, st.nviol, sample, viol.join(",")
    );
}
