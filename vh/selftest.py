"""Self-tests of the trusted oracles (run by setup.sh and at the start of C01). A failure makes checks INCONCLUSIVE —
it is a statement about the harness, never about the code under test."""
import json
import os
import re
import sys

from . import common, fsmon, resolve, rustgen as rg, shape as sh, tsmod, tsparse, zodeval


def fail(msg):
    raise common.Inconclusive("oracle self-test failed: " + msg)


def test_parser_readme():
    readme = os.path.join(common.REPO, "README.md")
    n = 0
    if os.path.exists(readme):
        txt = open(readme, encoding="utf-8").read()
        for b in re.findall(r"```(?:typescript|ts)\n(.*?)```", txt, re.S):
            if "</" in b or "/>" in b:
                continue      # JSX examples are outside the emitted language
            m = tsparse.parse_module(b)
            if m.errors:
                fail("README snippet rejected: %r" % (m.errors[0],))
            n += 1
    return n


def test_shapes():
    t = tsparse.parse_type_text
    eq = [("Array<string | null>", "(string | null)[]"), ("types.User[]", "Array<User>"), ("Record<string, [number, boolean]>", "Record<string,[number,boolean]>"),
          ("(A | B) | null", "null | B | A"), ("Promise<void>", "Promise<(void)>")]
    for a, b in eq:
        if sh.ts_shape(t(a)) != sh.ts_shape(t(b)):
            fail("shape equivalence %s vs %s" % (a, b))
    ne = [("string | null[]", "(string | null)[]"), ("[number, string]", "[string, number]"), ("Record<string, number>", "Record<number, string>"), ("User", "Users")]
    for a, b in ne:
        if sh.ts_shape(t(a)) == sh.ts_shape(t(b)):
            fail("shapes wrongly equal: %s vs %s" % (a, b))
    z = lambda s: sh.zod_shape(tsparse.parse_expr_text(s))
    if z("z.array(z.string().nullable())") != sh.ts_shape(t("(string | null)[]")):
        fail("zod nullable array")
    if z("z.set(z.string())") == z("z.array(z.string())"):
        fail("z.set must stay distinct from z.array")
    if z("z.coerce.number().min(1).max(2).optional()") != ("optional", ("num",)):
        fail("zod optional number")
    if z("z.record(z.string(), FooSchema)") != ("rec", ("str",), ("ref", "Foo")):
        fail("zod record of ref")
    # reference denotation
    if rg.M(("vec", ("opt", rg.P("i32")))) != ("arr", ("union", (("null",), ("num",)))):
        fail("M(Vec<Option<i32>>)")
    if rg.M(("res", ("tuple", [rg.P("String"), rg.N("A")]), rg.P("String"))) != ("tuple", (("str",), ("ref", "A"))):
        fail("M(Result<(String, A), String>)")
    return len(eq) + len(ne) + 6


def test_zodeval():
    ev = lambda schema, val: zodeval.zeval(tsparse.parse_expr_text(schema), val, {})
    cases = [("z.array(z.string().nullable())", ["a", None], True), ("z.array(z.string().optional())", ["a", None], False),
             ("z.set(z.string())", ["a"], False), ("z.tuple([z.string(), z.coerce.number()])", ["a", 1], True),
             ("z.tuple([z.string(), z.coerce.number()])", ["a"], False), ("z.object({ a: z.string().optional() })", {}, True),
             ("z.object({ a: z.string() })", {}, False), ("z.object({ a: z.string().optional() })", {"a": None}, False),
             ("z.record(z.string(), z.boolean())", {"k": True}, True), ("z.enum([\"a\", \"b\"])", "c", False),
             ("z.union([z.string(), z.object({ error: z.string() })])", 5, False), ("z.coerce.number()", "12", True), ("z.number()", "12", False)]
    for schema, val, want in cases:
        if ev(schema, val).ok != want:
            fail("mini-Zod %s on %r should be %s" % (schema, val, want))
    out = ev("z.object({ a: z.string() })", {"a": "x", "extra": 1}).out
    if out != {"a": "x"}:
        fail("z.object must strip unknown keys")
    return len(cases) + 1


def test_resolver():
    texts = {"types.ts": "import { z } from 'zod';\nexport const ASchema = z.object({ b: BSchema });\nexport const BSchema = z.string();\nexport type A = z.infer<typeof ASchema>;\nexport interface P { x: A; y: Missing; }\n",
             "commands.ts": "import { invoke } from '@tauri-apps/api/core';\nimport * as types from './types';\nexport async function f(p: types.P): Promise<types.A | types.Nope | Loose> { return invoke('f', p); }\n",
             "index.ts": "export * from './types';\nexport * from './commands';\n"}
    out = tsmod.Output("/nonexistent", texts)
    if out.errors():
        fail("resolver fixture does not parse: %r" % out.errors()[0])
    un = {(f, name) for (f, item, kind, name, why) in resolve.unresolved(out)}
    want = {("types.ts", "Missing"), ("commands.ts", "types.Nope"), ("commands.ts", "Loose")}
    if un != want:
        fail("resolver found %r, expected %r" % (sorted(un), sorted(want)))
    return 3


def test_strace_parser():
    import tempfile
    log = tempfile.mktemp()
    open(log, "w").write('123 openat(AT_FDCWD, "gen/types.ts", O_WRONLY|O_CREAT|O_TRUNC|O_CLOEXEC, 0666) = 3\n'
                         '123 openat(AT_FDCWD, "/abs/src/lib.rs", O_RDONLY|O_CLOEXEC) = 4\n'
                         '123 unlink("gen/.write_test") = 0\n123 openat(AT_FDCWD, "gen/x", O_WRONLY|O_CREAT, 0666) = -1 EACCES (Permission denied) (INJECTED)\n')
    ev = fsmon.parse_log(log, "/work")
    os.unlink(log)
    if [e["mutating"] for e in ev] != [True, False, True, True] or ev[0]["path"] != "/work/gen/types.ts" or not ev[3]["injected"] or ev[3]["ok"]:
        fail("strace log parser: %r" % ev)
    return 4


def test_exact_json():
    from .checks import c19
    a = c19.exact_load('{"a": 18446744073709551615, "b": 1.0, "c": [1, {"d": "x"}]}')
    b = c19.exact_load('{"c": [1, {"d": "x"}], "b": 1.0e0, "a": 18446744073709551615}')
    if c19.diff_json(a, b) is not None:
        fail("exact JSON: equal documents reported different")
    c = c19.exact_load('{"a": 18446744073709551616, "b": 1.0, "c": [1, {"d": "x"}]}')
    if c19.diff_json(a, c) is None:
        fail("exact JSON: u64 max vs max+1 not distinguished")
    return 2


def main():
    try:
        n = test_parser_readme() + test_shapes() + test_zodeval() + test_resolver() + test_strace_parser() + test_exact_json()
        from .checks import c01
        for s in c01.POSITIVE:
            if tsparse.parse_module(s).errors:
                fail("positive parser snippet rejected")
        for s in c01.NEGATIVE:
            if not tsparse.parse_module(s).errors:
                fail("negative parser snippet accepted")
        print("oracle self-tests passed (%d assertions + %d parser corpus snippets)" % (n, len(c01.POSITIVE) + len(c01.NEGATIVE)))
        return 0
    except common.Inconclusive as e:
        print(str(e))
        return 1


if __name__ == "__main__":
    sys.exit(main())
