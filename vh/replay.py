"""./check replay <witness-dir>: rebuild the saved case against the CURRENT /repo build and show what the tool does with it.
The witness (witness.json) holds sources, mode, configuration, hash seeds / fault plan or driver arguments. The replay
regenerates, prints the tool's exit status and output files, and re-applies the generic monitors (parse oracle,
resolver); for C20 witnesses it re-runs the driver on the saved graph range. Exit 1 if the generic monitors or the
driver still report a problem, 0 otherwise (property-specific comparison is described in the witness' `what`)."""
import json
import os
import sys

from . import common, proj, resolve, tsmod


def main(argv):
    if not argv:
        print("usage: check replay <witness-dir>")
        return 2
    wpath = os.path.join(argv[0], "witness.json") if os.path.isdir(argv[0]) else argv[0]
    w = json.load(open(wpath))
    print("property : %s\nsignature: %s\nwhat     : %s\n" % (w.get("property"), w.get("signature"), str(w.get("what"))[:1000]))
    wit = w.get("witness") or {}
    if "driver_args" in wit:
        drv = common.build_driver(release=True)
        r = common.run([drv] + [str(x) for x in wit["driver_args"]], hash_seed=wit.get("hash_seed"), timeout=600)
        print("driver exit %s\n%s\n%s" % (r.rc, r.out[-2000:], r.err[-500:]))
        try:
            st = json.loads(r.out.strip().splitlines()[-1])
            return 1 if st.get("nviol") else 0
        except (ValueError, IndexError):
            return 1 if r.rc != 0 else 0
    files = wit.get("files")
    if not files:
        print("this witness carries no source files; see its fields:\n%s" % json.dumps(wit, indent=1, default=str)[:3000])
        return 0
    cli = common.build_cli()
    modes = [wit.get("mode")] if wit.get("mode") in ("none", "zod") else ["none", "zod"]
    rc = 0
    for mode in modes:
        g = proj.generate(cli, [(p, t) for p, t in files], mode=mode, config=wit.get("config"), hash_seed=wit.get("hash_seed"), tag="replay")
        try:
            print("=== mode %s: exit %s" % (mode, g.run.rc))
            if g.run.err.strip():
                print("stderr: " + g.run.err.strip()[-800:])
            if g.run.abnormal():
                rc = 1
            out = tsmod.Output(g.out)
            for f, t in out.texts.items():
                print("--- %s\n%s" % (f, common.strip_ts(t)[:6000]))
            for e in out.errors():
                print("PARSE ERROR %s:%d:%d %s near %r" % (e["file"], e["line"], e["col"], e["msg"], e["token"]))
                rc = 1
            if not out.errors():
                for u in resolve.unresolved(out):
                    print("UNRESOLVED %s" % (u,))
        finally:
            g.cleanup()
    for k in ("history", "path", "target", "kind", "phase", "type", "site", "hash_seeds", "creation_order", "transform", "flags", "file", "source"):
        if k in wit:
            print("%s: %s" % (k, wit[k]))
    return rc


if __name__ == "__main__":
    sys.exit(main(sys.argv[1:]))
