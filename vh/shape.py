"""Common shape model: parsed TS types and parsed Zod expressions are both mapped into Shapes
(see rustgen.M for the reference side)."""
from .rustgen import norm_union

PRIMS = {"string": ("str",), "number": ("num",), "boolean": ("bool",), "void": ("void",), "null": ("null",),
         "undefined": ("undefined",), "unknown": ("unknown",), "any": ("any",), "never": ("never",), "object": ("object",)}


class ShapeError(Exception):
    pass


def strip_ns(name):
    return name[6:] if name.startswith("types.") else name


def ts_shape(ty, keep_ns=False):
    """parsed TS type AST -> Shape"""
    k = ty[0]
    if k == "paren":
        return ts_shape(ty[1], keep_ns)
    if k == "ref":
        name, args = ty[1], ty[2]
        base = name if keep_ns else strip_ns(name)
        if not args and base in PRIMS:
            return PRIMS[base]   # `types.string` is judged by C02 (resolution), not by the shape comparison
        if base == "Array" and len(args) == 1:
            return ("arr", ts_shape(args[0], keep_ns))
        if base == "Record" and len(args) == 2:
            return ("rec", ts_shape(args[0], keep_ns), ts_shape(args[1], keep_ns))
        if base in ("Promise", "Channel", "Partial", "Set", "Map") and args:
            return (base.lower(),) + tuple(ts_shape(a, keep_ns) for a in args)
        if args:
            return ("generic", base, tuple(ts_shape(a, keep_ns) for a in args))
        return ("ref", base)
    if k == "array":
        return ("arr", ts_shape(ty[1], keep_ns))
    if k == "tuple":
        return ("tuple", tuple(ts_shape(x, keep_ns) for x in ty[1]))
    if k == "union":
        return norm_union([ts_shape(x, keep_ns) for x in ty[1]])
    if k == "inter":
        return ("inter", tuple(ts_shape(x, keep_ns) for x in ty[1]))
    if k == "lit":
        return ("lit", ty[1])
    if k == "object":
        props = []
        for m in ty[1]:
            if m[0] == "prop":
                props.append((m[1], ts_shape(m[4], keep_ns), bool(m[3])))
            elif m[0] == "index":
                props.append(("[index]", ts_shape(m[3], keep_ns), False))
        return ("obj", tuple(props))
    if k == "func":
        return ("func",)
    if k == "typeof":
        return ("typeof", ty[1])
    if k == "indexed":
        return ("indexed", ts_shape(ty[1], keep_ns), ts_shape(ty[2], keep_ns))
    if k in ("keyof", "readonly", "unique"):
        return (k, ts_shape(ty[1], keep_ns))
    if k == "tmpl":
        return ("str",)
    raise ShapeError("unhandled type node %r" % (k,))


def _callee_path(e):
    """z.coerce.number -> ['z','coerce','number'] ; returns None if not a pure member path on an identifier"""
    parts = []
    while e[0] == "member":
        parts.append(e[2])
        e = e[1]
    if e[0] == "id":
        parts.append(e[1])
        return list(reversed(parts))
    return None


def zod_shape(e, constraints=None, path=""):
    """parsed expression AST of a Zod schema -> Shape.  `.optional()` becomes ("optional", S).
    constraints (if a list is given) receives (path, method, args_ast) for every refinement call."""
    k = e[0]
    if k == "paren":
        return zod_shape(e[1], constraints, path)
    if k == "id":
        name = e[1]
        if name.endswith("Schema"):
            return ("ref", name[:-6])
        raise ShapeError("identifier %r is not a schema reference" % name)
    if k == "member":
        p = _callee_path(e)
        if p and p[0] == "types" and len(p) == 2 and p[1].endswith("Schema"):
            return ("ref", p[1][:-6])
        raise ShapeError("member expression is not a schema")
    if k != "call":
        raise ShapeError("expression kind %r is not a schema" % k)
    callee, args, targs = e[1], e[2], e[3]
    p = _callee_path(callee)
    if p and p[0] == "z":
        rest = p[1:]
        if rest == ["string"]:
            return ("str",)
        if rest in (["number"], ["coerce", "number"]):
            return ("num",)
        if rest in (["boolean"], ["coerce", "boolean"]):
            return ("bool",)
        if rest == ["coerce", "string"]:
            return ("str",)
        if rest == ["void"]:
            return ("void",)
        if rest == ["null"]:
            return ("null",)
        if rest == ["undefined"]:
            return ("undefined",)
        if rest == ["unknown"]:
            return ("unknown",)
        if rest == ["any"]:
            return ("any",)
        if rest == ["never"]:
            return ("never",)
        if rest == ["array"] and len(args) >= 1:
            return ("arr", zod_shape(args[0], constraints, path + "/arr"))
        if rest == ["set"] and len(args) >= 1:
            return ("set", zod_shape(args[0], constraints, path + "/set"))
        if rest == ["record"] and len(args) == 2:
            return ("rec", zod_shape(args[0], constraints, path + "/key"), zod_shape(args[1], constraints, path + "/val"))
        if rest == ["record"] and len(args) == 1:
            return ("rec", ("str",), zod_shape(args[0], constraints, path + "/val"))
        if rest == ["tuple"] and len(args) == 1 and args[0][0] == "array":
            return ("tuple", tuple(zod_shape(x, constraints, path + "/t%d" % i) for i, x in enumerate(args[0][1])))
        if rest == ["union"] and len(args) == 1 and args[0][0] == "array":
            return norm_union([zod_shape(x, constraints, path + "/u%d" % i) for i, x in enumerate(args[0][1])])
        if rest == ["enum"] and len(args) == 1 and args[0][0] == "array":
            lits = []
            for x in args[0][1]:
                if x[0] != "str":
                    raise ShapeError("z.enum with non-string member")
                lits.append(("lit", x[1]))
            return norm_union(lits) if lits else ("never",)
        if rest == ["literal"] and len(args) == 1 and args[0][0] in ("str", "num", "bool"):
            return ("lit", args[0][1])
        if rest == ["object"] and len(args) == 1 and args[0][0] == "object":
            props = []
            for pr in args[0][1]:
                if pr[0] != "prop":
                    raise ShapeError("z.object with non-plain property")
                s = zod_shape(pr[3], constraints, path + "/." + str(pr[1]))
                opt = False
                if s[0] == "optional":
                    s, opt = s[1], True
                props.append((pr[1], s, opt))
            return ("obj", tuple(props))
        if rest == ["custom"]:
            if targs:
                s_ = ts_shape(targs[0])
                if s_ in (("str",), ("num",), ("bool",)):
                    # z.custom<boolean>(..) types as boolean but checks nothing: not the schema of that primitive
                    return ("custom-unvalidated", s_)
                return s_
            return ("any",)
        if rest == ["lazy"] and len(args) == 1 and args[0][0] == "arrow":
            body = args[0][2]
            if body[0] == "block":
                raise ShapeError("z.lazy with block body")
            return zod_shape(body, constraints, path)
        raise ShapeError("unknown zod constructor z.%s" % ".".join(rest))
    # method call on a schema
    if callee[0] == "member":
        recv, meth = callee[1], callee[2]
        inner = zod_shape(recv, constraints, path)
        if meth == "optional":
            return ("optional", inner[1] if inner[0] == "optional" else inner)
        if meth == "nullable":
            if inner[0] == "optional":
                return ("optional", norm_union([inner[1], ("null",)]))
            return norm_union([inner, ("null",)])
        if meth == "nullish":
            base = inner[1] if inner[0] == "optional" else inner
            return ("optional", norm_union([base, ("null",)]))
        if meth == "or" and len(args) == 1:
            other = zod_shape(args[0], constraints, path + "/or")
            return norm_union([inner, other])
        if meth in ("min", "max", "length", "email", "url", "uuid", "regex", "int", "positive", "negative", "nonnegative",
                    "nonempty", "gt", "gte", "lt", "lte", "trim", "refine", "default", "describe", "startsWith", "endsWith"):
            if constraints is not None:
                constraints.append((path, meth, args))
            return inner
        raise ShapeError("unknown zod method .%s()" % meth)
    raise ShapeError("call is not a zod schema")


def show(s):
    """compact printable form of a Shape"""
    k = s[0]
    if k in ("str", "num", "bool", "void", "null", "undefined", "unknown", "any", "never", "object", "func"):
        return {"str": "string", "num": "number", "bool": "boolean"}.get(k, k)
    if k == "arr":
        return "Array<%s>" % show(s[1])
    if k == "custom-unvalidated":
        return "custom<%s>(accepts anything)" % show(s[1])
    if k == "set":
        return "Set<%s>" % show(s[1])
    if k == "tuple":
        return "[%s]" % ", ".join(show(x) for x in s[1])
    if k == "rec":
        return "Record<%s, %s>" % (show(s[1]), show(s[2]))
    if k == "union":
        return "(" + " | ".join(show(x) for x in s[1]) + ")"
    if k == "lit":
        return repr(s[1])
    if k == "ref":
        return s[1]
    if k == "optional":
        return show(s[1]) + "?"
    if k == "obj":
        return "{" + "; ".join("%s%s: %s" % (p[0], "?" if p[2] else "", show(p[1])) for p in s[1]) + "}"
    if k in ("promise", "channel", "partial", "map"):
        return "%s<%s>" % (k.capitalize(), ", ".join(show(x) for x in s[1:]))
    if k == "generic":
        return "%s<%s>" % (s[1], ", ".join(show(x) for x in s[2]))
    return repr(s)


def shape_skeleton(s):
    """shape with leaves normalised (for signatures)"""
    k = s[0]
    if k in ("str", "num", "bool"):
        return "$"
    if k in ("void", "null", "undefined", "unknown", "any", "never"):
        return k
    if k == "ref":
        return "N"
    if k == "lit":
        return "lit"
    if k in ("arr", "set", "optional", "custom-unvalidated"):
        return "%s<%s>" % (k, shape_skeleton(s[1]))
    if k == "rec":
        return "rec<%s,%s>" % (shape_skeleton(s[1]), shape_skeleton(s[2]))
    if k == "tuple":
        return "[%s]" % ",".join(shape_skeleton(x) for x in s[1])
    if k == "union":
        return "(" + "|".join(sorted(shape_skeleton(x) for x in s[1])) + ")"
    if k == "obj":
        return "{" + ",".join("%s%s" % ("?" if p[2] else "", shape_skeleton(p[1])) for p in s[1]) + "}"
    if k in ("promise", "channel"):
        return "%s<%s>" % (k, shape_skeleton(s[1]))
    if k == "generic":
        return "G<%s>" % ",".join(shape_skeleton(x) for x in s[2])
    return k
