"""Structured view of one generated output directory, built on the parse oracle."""
import os

from . import tsparse

TS_FILES = ("types.ts", "commands.ts", "events.ts", "index.ts")


def walk(node):
    """yield every tuple node of an AST (expressions, statements, types)"""
    if isinstance(node, tuple):
        yield node
        for x in node:
            if isinstance(x, (tuple, list)):
                yield from walk(x)
    elif isinstance(node, list):
        for x in node:
            yield from walk(x)
    elif isinstance(node, dict):
        for x in node.values():
            if isinstance(x, (tuple, list, dict)):
                yield from walk(x)


def find_calls(node, name):
    """all ("call", callee, args, targs, opt) nodes whose callee is identifier `name`"""
    res = []
    for n in walk(node):
        if n and n[0] == "call" and n[1][0] == "id" and n[1][1] == name:
            res.append(n)
    return res


class Output:
    """parsed output directory"""

    def __init__(self, d, texts=None):
        self.dir = d
        self.texts = {}
        self.mods = {}
        if texts is None:
            texts = {}
            if os.path.isdir(d):
                for f in sorted(os.listdir(d)):
                    if f.endswith(".ts") and os.path.isfile(os.path.join(d, f)):
                        texts[f] = open(os.path.join(d, f), encoding="utf-8", errors="replace").read()
        for f, t in texts.items():
            self.texts[f] = t
            self.mods[f] = tsparse.parse_module(t)

    def errors(self):
        res = []
        for f, m in self.mods.items():
            for e in m.errors:
                e2 = dict(e)
                e2["file"] = f
                res.append(e2)
        return res

    def items(self, f, kind=None):
        m = self.mods.get(f)
        if not m:
            return []
        return [it for it in m.items if kind is None or it["kind"] == kind]

    # ---- types.ts
    def interfaces(self):
        return {it["name"]: it for it in self.items("types.ts", "interface")}

    def aliases(self):
        return {it["name"]: it for it in self.items("types.ts", "type")}

    def consts(self):
        return {it["name"]: it for it in self.items("types.ts", "const")}

    def decl_order(self, f="types.ts"):
        return [(it["kind"], it.get("name")) for it in self.items(f) if it["kind"] in ("interface", "type", "const", "function")]

    # ---- commands.ts
    def commands(self):
        """name -> dict(fn item, invoke_name, invoke_arg (expr or None), params, ret)"""
        res = {}
        for it in self.items("commands.ts", "function"):
            calls = find_calls(it["body"], "invoke")
            inv_name = inv_arg = None
            targs = []
            if calls:
                c = calls[0]
                if c[2] and c[2][0][0] == "str":
                    inv_name = c[2][0][1]
                if len(c[2]) > 1:
                    inv_arg = c[2][1]
                targs = c[3]
            res.setdefault(it["name"], []).append({"item": it, "invoke_name": inv_name, "invoke_arg": inv_arg,
                                                    "invoke_calls": len(calls), "invoke_targs": targs,
                                                    "params": it["params"], "ret": it["ret"]})
        return res

    # ---- events.ts
    def listeners(self):
        res = []
        for it in self.items("events.ts", "function"):
            calls = find_calls(it["body"], "listen")
            ev = None
            targs = []
            if calls:
                c = calls[0]
                if c[2] and c[2][0][0] == "str":
                    ev = c[2][0][1]
                targs = c[3]
            handler_ty = None
            if it["params"]:
                hty = it["params"][0][2]
                if hty and hty[0] == "func" and hty[1]:
                    handler_ty = hty[1][0][2]
            res.append({"item": it, "name": it["name"], "event": ev, "listen_targs": targs, "payload": handler_ty,
                        "listen_calls": len(calls)})
        return res

    def index_exports(self):
        return [it["from"] for it in self.items("index.ts", "export_all")]
