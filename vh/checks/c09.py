"""C09 — in Zod mode no schema is read before it is defined (acyclic type graphs).
All labelled DAGs up to 3 (quick) / 4 (thorough) nodes x edge contexts x hash seeds (replayable via the getrandom shim),
plus sampled DAGs up to 6 nodes with mixed contexts. Oracle: declaration-before-use scan of the parsed types.ts."""
import itertools
import random

from .. import common, proj, rustgen as rg
from ..common import Verdict
from ..tsmod import walk

CTX = [
    ("direct", lambda x: x),
    ("Option", lambda x: ("opt", x)),
    ("Vec", lambda x: ("vec", x)),
    ("map-value", lambda x: ("hmap", rg.P("String"), x)),
    ("tuple-slot", lambda x: ("tuple", [rg.P("i32"), x])),
    ("nested", lambda x: ("opt", ("vec", ("hmap", rg.P("String"), ("tuple", [x, rg.P("bool")]))))),
    ("HashSet", lambda x: ("hset", x)),
    ("map-key", lambda x: ("bmap", x, rg.P("i32"))),
    ("Result-in-tuple", lambda x: ("tuple", [("vec", x), ("opt", x)])),
    # smart pointers are not in the documented table; whatever the tool prints for them, a schema it reads must already be defined
    ("Box", lambda x: ("raw", "Box<%s>" % rg.rust(x))),
    ("Arc-in-Vec", lambda x: ("raw", "Vec<std::sync::Arc<%s>>" % rg.rust(x))),
    ("array", lambda x: ("array", x)),
    ("array-of-array", lambda x: ("array", ("array", x))),
    ("array-of-map-of-array", lambda x: ("array", ("hmap", rg.P("String"), ("array", x)))),
    ("Vec-of-array", lambda x: ("vec", ("array", x))),
    # the dependency written through a path, and below a container written through its std path
    ("path-qualified", lambda x: ("raw", "crate::models::%s" % rg.rust(x))),
    ("std-qualified-map", lambda x: ("raw", "std::collections::HashMap<String, %s>" % rg.rust(x))),
    ("path-qualified-in-Vec", lambda x: ("raw", "Vec<self::app_models::%s>" % rg.rust(x))),
    # tuple members that contain commas of their own
    ("tuple-of-map", lambda x: ("tuple", [("hmap", rg.P("String"), x), rg.P("u32")])),
    ("tuple-of-tuple", lambda x: ("tuple", [("tuple", [x, rg.P("u32")]), rg.P("String")])),
    ("tuple-after-map", lambda x: ("tuple", [("bmap", rg.P("u8"), rg.P("String")), ("vec", x)])),
    ("Option-Rc", lambda x: ("raw", "Option<Rc<%s>>" % rg.rust(x))),
]


def all_dags(n):
    pairs = [(i, j) for i in range(n) for j in range(n) if i != j]
    res = []
    for mask in range(1 << len(pairs)):
        edges = [pairs[k] for k in range(len(pairs)) if mask >> k & 1]
        if acyclic(n, edges):
            res.append(edges)
    return res


def acyclic(n, edges):
    indeg = [0] * n
    adj = [[] for _ in range(n)]
    for (i, j) in edges:
        adj[i].append(j)
        indeg[j] += 1
    q = [i for i in range(n) if indeg[i] == 0]
    seen = 0
    while q:
        i = q.pop()
        seen += 1
        for j in adj[i]:
            indeg[j] -= 1
            if indeg[j] == 0:
                q.append(j)
    return seen == n


LETTERS = ["A", "B", "C", "E", "K", "T", "U", "V", "X", "Z"]


def build(n, edges, ctxs, enum_leaves, nfiles, tag, external=False, emit=()):
    """edges: list of (i, j) meaning Ti has a field of a type mentioning Tj; ctxs: per-edge context index;
    emit: nodes that are ALSO the payload of an emitted event (a payload type can be a dependency of a command type)"""
    names = ["%sN%d" % (tag, i) for i in range(n)]
    if tag.startswith("L") and n <= len(LETTERS):
        # type names of one upper-case letter (the look of a generic parameter), in ascending or descending index order
        names = [LETTERS[i] for i in range(n)] if tag == "La" else [LETTERS[len(LETTERS) - 1 - i] for i in range(n)]
    out_edges = {i: [] for i in range(n)}
    for k, (i, j) in enumerate(edges):
        out_edges[i].append((j, CTX[ctxs[k]][1](rg.N(names[j]))))
    leaves = [i for i in range(n) if not out_edges[i]]
    body = {}
    for i in range(n):
        if i in leaves and enum_leaves and i % 2 == 1:
            src = rg.enum_src(names[i], [("A",), ("B",)], derive_style=rg.DERIVE_STYLES[(i + n) % len(rg.DERIVE_STYLES)])
        else:
            ext = [("ext_id", "Uuid"), ("stamps", "Vec<DateTime<Utc>>")] if external and i % 2 == 0 else []
            def vattrs(k_, ty_):
                # a third of the structs validate their fields: `length` on the collections that carry an edge, `range` on the id
                if (i + n) % 3 != 0:
                    return []
                return ['#[validate(length(min = 1, max = 50, message = "size"))]'] if ty_[0] in ("vec", "hset", "bset", "hmap", "bmap") else ['#[validate(nested)]'] if k_ % 2 else []
            src = rg.struct_src(names[i], [("id", "i32", ['#[validate(range(min = 0))]'] if (i + n) % 3 == 0 else [])] + ext + [("f%d" % k, rg.rust(ty), vattrs(k, ty)) for k, (j, ty) in enumerate(out_edges[i])],
                                derives="Serialize, Deserialize, Validate" if (i + n) % 3 == 0 else "Serialize, Deserialize",
                                derive_style=rg.DERIVE_STYLES[(i + len(edges)) % len(rg.DERIVE_STYLES)])
        body.setdefault("m%d.rs" % (i % nfiles), []).append(src)
    cmd = rg.command_src("root_%s" % tag.lower(), [("p%d" % i, names[i]) for i in range(n)], "Vec<%s>" % names[0])
    cmd += rg.command_src("opt_%s" % tag.lower(), [("o", "Option<Vec<%s>>" % names[n - 1])], names[n - 1])
    body.setdefault("m0.rs", []).append(cmd)
    for i in emit:
        body.setdefault("m%d.rs" % ((i + 1) % nfiles), []).append(
            "pub fn emit_%s_%d(app: tauri::AppHandle, p: %s) {\n    app.emit(\"ev-%s-%d\", p).unwrap();\n}\n\n" % (tag.lower(), i, names[i], tag.lower(), i))
    return [(p, rg.PRELUDE + "".join(v)) for p, v in body.items()], names


def schema_reads(e, acc):
    """identifiers ...Schema read when the initializer is evaluated (arrow-function bodies are deferred)"""
    if not isinstance(e, tuple) or not e:
        return
    if e[0] == "arrow" or e[0] == "func":
        return
    if e[0] == "id":
        if e[1].endswith("Schema"):
            acc.append(e[1])
        return
    if e[0] == "member":
        schema_reads(e[1], acc)
        return
    for x in e[1:]:
        if isinstance(x, tuple):
            schema_reads(x, acc)
        elif isinstance(x, list):
            for y in x:
                if isinstance(y, tuple):
                    schema_reads(y, acc)


def scan(out):
    """-> (violations [(const, read, why)], order [const names])"""
    declared = set()
    order = []
    viol = []
    for it in out.items("types.ts"):
        if it["kind"] != "const":
            continue
        acc = []
        schema_reads(it["init"], acc)
        for r in acc:
            if r not in declared:
                viol.append((it["name"], r))
        declared.add(it["name"])
        order.append(it["name"])
    return viol, order


def run_case(a):
    cli, key, n, edges, ctxs, enum_leaves, nfiles, seeds = a[:8]
    external = len(a) > 8 and a[8]
    emit = a[9] if len(a) > 9 else ()
    tag = "G"
    if n + 1 <= len(LETTERS) and sum(map(ord, repr(key))) % 5 == 2:
        tag = "La" if sum(map(ord, repr(key))) % 2 else "Lz"
    files, names = build(n, edges, ctxs, enum_leaves, nfiles, tag, external, emit)
    cfg = {"type_mappings": {"Uuid": "string", "DateTime<Utc>": "string"}} if external else None
    orders = set()
    viol = []
    blocked = 0
    root = common.scratch("c09")
    try:
        common.write_tree(root + "/src", files)
        for hs in seeds:
            out_dir = "out_%s" % hs
            g = proj.generate(cli, None, mode="zod", hash_seed=hs, root=root, out_name=out_dir, tag="c09", config=cfg)
            if g.run.timed_out:
                return {"inconclusive": "watchdog"}
            if g.run.rc != 0:
                blocked += 1
                continue
            o = g.output
            if "types.ts" not in o.mods or o.mods["types.ts"].errors:
                blocked += 1
                continue
            v, order = scan(o)
            orders.add(tuple(x for x in order if not x.endswith("ParamsSchema")))
            param_first = [x for x in order if x.endswith("ParamsSchema")]
            for (c, r) in v:
                kind = "param-schema-before-type-schema" if c.endswith("ParamsSchema") else "struct-schema-before-dependency"
                ctxlab = "?"
                if not c.endswith("ParamsSchema"):
                    try:
                        ci = names.index(c[:-6])
                        cj = names.index(r[:-6]) if r[:-6] in names else None
                        for k, (i, j) in enumerate(edges):
                            if i == ci and j == cj:
                                ctxlab = CTX[ctxs[k]][0]
                    except ValueError:
                        pass
                viol.append((kind, ctxlab, "hash seed %s: %s reads %s before its definition; order=%s" % (hs, c, r, order), hs))
        # (b) the project is edited and regenerated INTO THE SAME DIRECTORY: a type declared early in the old file gains a dependency on
        #     one declared after it (and on a brand-new type); what the directory held before must not shape the new order
        regen = 0
        if viol == [] and orders and n >= 2:
            first = [x[:-6] for x in sorted(orders)[0] if x.endswith("Schema") and x[:-6] in names]
            pos = {nm: k for k, nm in enumerate(first)}
            extra = []
            for a_ in range(n):
                for b_ in range(n):
                    if a_ != b_ and names[a_] in pos and names[b_] in pos and pos[names[a_]] < pos[names[b_]] and (a_, b_) not in edges and acyclic(n, list(edges) + extra + [(a_, b_)]):
                        extra.append((a_, b_))
                        break
                if len(extra) >= 2:
                    break
            edges2 = list(edges) + extra + [(0, n)]          # node n: the brand-new type, a dependency of the first node
            files2, names2 = build(n + 1, edges2, list(ctxs) + [0] * (len(edges2) - len(edges)), enum_leaves, nfiles, tag, external, emit)
            import shutil
            shutil.rmtree(root + "/src", ignore_errors=True)
            common.write_tree(root + "/src", files2)
            for k, hs in enumerate(seeds[:2]):
                out_dir = "out_%s" % hs          # holds the first generation made under this hash seed
                g = proj.generate(cli, None, mode="zod", hash_seed=hs, root=root, out_name=out_dir, tag="c09", config=cfg, force=(k == 0))
                if g.run.timed_out or g.run.rc != 0 or "types.ts" not in g.output.mods or g.output.mods["types.ts"].errors:
                    continue
                regen += 1
                v2, order2 = scan(g.output)
                for (c, r) in v2:
                    viol.append(("struct-schema-before-dependency-after-regeneration-into-the-same-directory", "forced" if k == 0 else "non-forced",
                                 "hash seed %s, %s regeneration after adding %s: %s reads %s before its definition; order=%s" % (hs, "forced" if k == 0 else "non-forced", extra + [(0, n)], c, r, order2), hs))
            files = files2 if any(v_[0].endswith("same-directory") for v_ in viol) else files
        return {"orders": len(orders), "viol": viol, "blocked": blocked, "runs": len(seeds), "files": files, "regen": regen}
    finally:
        common.rmtree(root)


def run(tier):
    v = Verdict("C09", "exploration", tier)
    cli = common.build_cli()
    rnd = random.Random(common.seed())
    sd = common.seed()
    nseeds = 8 if tier == "quick" else 32
    seeds_fixed = [sd * 100 + k for k in range(nseeds - 2)] + [None, None]  # plus two unseeded (OS entropy) processes
    jobs = []
    maxn = 3 if tier == "quick" else 4
    nctx = 6     # uniform contexts of the exhaustive part; the remaining ones (incl. the smart-pointer spellings) occur in the sampled graphs
    for n in range(1, maxn + 1):
        for edges in all_dags(n):
            if not edges and n > 1:
                continue
            for c in range(nctx):
                # every other context additionally gives some structs fields of foreign types covered by type_mappings
                # ... and two of every three contexts make some nodes event payloads as well: the depended-upon nodes only, or every second node
                depended = sorted({j for (_, j) in edges})
                emit = () if c % 3 == 0 else tuple(depended[: 1 + c % 2]) if c % 3 == 1 else tuple(i for i in range(n) if i % 2 == 1)
                jobs.append((cli, ("exh", n, tuple(edges), c), n, edges, [c] * len(edges), n >= 3, min(n, 2 + c % 2), seeds_fixed, c % 2 == 1, emit))
    exhaustive_jobs = len(jobs)
    # sampled larger DAGs with mixed contexts
    nsamp = 100 if tier == "quick" else 3000
    four = all_dags(4) if tier == "quick" else None
    for s in range(nsamp):
        if four is not None and s < 60:
            n = 4
            edges = rnd.choice(four)
        else:
            n = rnd.randint(4, 6)
            perm = list(range(n))
            rnd.shuffle(perm)
            edges = [(perm[i], perm[j]) for i in range(n) for j in range(i + 1, n) if rnd.random() < 0.4]
        if not edges:
            continue
        ctxs = [rnd.randrange(len(CTX)) for _ in edges]
        jobs.append((cli, ("rnd", s), n, edges, ctxs, True, rnd.randint(1, 3), seeds_fixed[: max(4, nseeds // 2)], rnd.random() < 0.5,
                     tuple(i for i in range(n) if rnd.random() < 0.35)))
    # long dependency chains (and chains with a shortcut) under several name orders: depth limits and stack-based walks show only there
    for length in (5, 6, 8, 12):
        for order in ("head-first", "leaf-first", "shuffled"):
            idxs = list(range(length))
            if order == "leaf-first":
                idxs = idxs[::-1]
            elif order == "shuffled":
                rnd.shuffle(idxs)
            # idxs[k] depends on idxs[k+1]; node names are N0..N(length-1) in name order
            edges = [(idxs[k], idxs[k + 1]) for k in range(length - 1)]
            for extra in ((), ((idxs[0], idxs[2]),), ((idxs[0], idxs[length - 1]), (idxs[1], idxs[length - 2]))):
                e2 = edges + [e for e in extra if e not in edges]
                jobs.append((cli, ("chain", length, order, len(extra)), length, e2, [rnd.randrange(len(CTX)) for _ in e2], False, rnd.randint(1, 2),
                             seeds_fixed[: max(4, nseeds // 2)], False, ()))
    # graphs with many more types than the statement's small scope (real projects have dozens): the ordering routines behave
    # differently above certain sizes (insertion sort below, partitioning above), the statement does not
    for n_big in ((33, 40, 64) if tier == "quick" else (33, 34, 40, 48, 64, 90, 130)):
        for variant in range(2):
            perm = list(range(n_big))
            rnd.shuffle(perm)
            e_big = []
            for a_ in range(n_big - 1):
                for b_ in rnd.sample(range(a_ + 1, n_big), min(n_big - a_ - 1, rnd.randint(0, 2) if variant else 1)):
                    e_big.append((perm[a_], perm[b_]))
            jobs.append((cli, ("large", n_big, variant), n_big, e_big, [rnd.randrange(6) for _ in e_big], True, 3, seeds_fixed[:3], False, ()))
    res = common.pmap(run_case, jobs, chunksize=2)
    total_orders = 0
    multi = 0
    for (job, r) in zip(jobs, res):
        if "inconclusive" in r:
            v.inconclusive.append("watchdog")
            continue
        key = job[1]
        v.case(key, nontrivial=len(job[3]) >= 1, sample={"nodes": job[2], "edges": job[3], "contexts": [CTX[c][0] for c in job[4]], "distinct_schema_orders": r["orders"]})
        v.count("process_runs", r["runs"])
        v.count("runs_blocked", r["blocked"])
        v.count("regenerations_into_a_directory_holding_the_previous_output", r.get("regen", 0))
        if len(job) > 9 and job[9]:
            v.count("graphs_with_event_payload_nodes")
            if {j for (_, j) in job[3]} & set(job[9]):
                v.count("graphs_where_a_payload_type_is_a_dependency")
        total_orders += r["orders"]
        if r["orders"] > 1:
            multi += 1
        for (kind, ctxlab, what, hs) in r["viol"]:
            v.violation("C09 %s ctx=%s" % (kind, ctxlab), what, proj.witness_of(r["files"], "zod", extra={"hash_seed": hs, "graph": {"n": job[2], "edges": job[3]}}))
    v.extra["graphs"] = len(jobs)
    v.extra["exhaustive_graph_context_pairs"] = exhaustive_jobs
    v.extra["hash_seeds_per_graph"] = nseeds
    v.extra["distinct_schema_orders_total"] = total_orders
    v.extra["graphs_with_more_than_one_observed_order"] = multi
    rule = ("a case is one acyclic type graph with one assignment of edge contexts, generated in Zod mode under every hash seed of the run "
            "(seeded via the getrandom shim, plus two OS-entropy processes); non-trivial = at least one edge; distinct by (graph, contexts). "
            "Exhaustive over all labelled DAGs up to the stated node count x 6 uniform contexts")
    return v.finish(rule, assumptions=["reads inside arrow-function bodies (z.lazy) are deferred and not counted"], exhaustive=False)
