"""C06 — property keys and enum literals equal the names serde uses on the wire.
Translation-validation style: the SAME generated struct/enum definitions are (a) compiled against real
serde_derive/serde_json in the oracle crate, which prints the keys / variant strings it really serialises, and
(b) given to the real CLI; keys of interfaces / z.object and literals of unions / z.enum (decoded) must be equal."""
import json
import random

from .. import common, proj, rustgen as rg, serde_oracle, shape as sh
from ..common import Verdict

RENAME_ALL = [None, "lowercase", "UPPERCASE", "PascalCase", "camelCase", "snake_case", "SCREAMING_SNAKE_CASE", "kebab-case", "SCREAMING-KEBAB-CASE"]
FIELD_IDENTS = ["name", "user_account_id", "field2", "a1_b2", "x", "a__b", "_private", "kind_", "userID", "HTTPStatus", "is_ok", "r#type", "v2_api_key",
                # identifiers with non-ASCII letters after an ASCII first letter: serde's rules change the case of ASCII letters only
                # (a non-ASCII FIRST letter makes serde_derive itself panic under camelCase — no program, nothing to compare with)
                "größe", "café_count", "straße_nr", "naïve_id"]
VARIANT_IDENTS = ["Active", "HTTPError", "XmlHttpRequest", "A", "V2", "Value_With_Underscore", "lowercase", "SCREAMING", "FirstValue", "IOError2", "Größe", "Straße"]
RENAME_VALUES = ["customName", "id", "user-id", "USER-ID", "with space", "naïve", "日本", "skip", "rename_all", "skip_serializing", "do_skip_me",
                 "rename", "say \"hi\"", "back\\slash", "a=b", "a, b", "renamed_all", "default", "1st",
                 # every kind of quote and what a template literal would read
                 "don't-know", "it's", "'quoted'", "back`tick", "${x}", "a'b\"c", "tab\there", "semi;colon", "slash/star*/", "//comment",
                 # names made of digits: as a bare key a number names its canonical spelling, not its text
                 "404", "007", "12345678901234567890123", "1e3", "0x10", "1.50", "-1", "0"]


def rs(s):
    return '"' + s.replace("\\", "\\\\").replace('"', '\\"') + '"'


def field_attr_variants(rnd):
    """-> list of (label, [attr lines], field type, skipped?)"""
    pool = RENAME_VALUES[:]
    rnd.shuffle(pool)
    rv = lambda: pool.pop()
    out = [
        ("none", [], "i32"),
        # field types that carry no data: serde writes their key all the same (null)
        ("type-PhantomData", [], "std::marker::PhantomData<u8>"),
        ("type-unit", [], "()"),
        ("rename", None, "i32"),
        ("skip", ["#[serde(skip)]"], "i32"),
        ("skip_serializing_if", ['#[serde(skip_serializing_if = "Option::is_none")]'], "Option<i32>"),
        ("default", ["#[serde(default)]"], "i32"),
        ("default-fn-named-skip", ['#[serde(default = "skip_default")]'], "i32"),
        ("default-fn-named-rename", ['#[serde(default = "rename_default")]'], "i32"),
        ("alias", ['#[serde(alias = "other")]'], "i32"),
        ("alias-named-rename", ['#[serde(alias = "rename")]'], "i32"),
        ("alias-named-skip", ['#[serde(alias = "skip")]'], "i32"),
        ("rename+default", None, "i32"),
        ("default+rename", None, "i32"),
        ("rename,separate-default", None, "i32"),
        ("skip_serializing_if+rename", None, "Option<i32>"),
        ("rename+skip_serializing_if", None, "Option<i32>"),
        ("doc-mentions-skip", ['#[doc = "skip this, rename = \\"nope\\""]'], "i32"),
        ("skip+default", ["#[serde(skip, default)]"], "i32"),
        # the usual way to exempt one item from the container's rename_all: a rename that spells its own name
        ("rename-to-own-name", ['#[serde(rename = "@OWN@")]'], "i32"),
        # other spellings of the same attribute grammar
        ("rename-raw-string", ['#[serde(rename = r#"raw"quoted\\name"#)]'], "i32"),
        ("rename-no-spaces-trailing-comma", ['#[serde(rename="tight",)]'], "i32"),
        # one-directional skips and conversion hooks: the statement makes a field absent iff it carries #[serde(skip)] itself, so these
        # keep the field (the oracle crate is compiled without them to learn the wire name)
        ("skip_serializing", ["#[serde(skip_serializing)]"], "i32"),
        ("skip_deserializing", ["#[serde(skip_deserializing)]"], "i32"),
        ("default,separate-skip_serializing", ["#[serde(default)]", "#[serde(skip_serializing)]"], "i32"),
        ("serialize_with-fn-named-skip", ['#[serde(serialize_with = "skip_ser")]'], "i32"),
        ("with-module-named-rename", ['#[serde(with = "rename_mod")]'], "i32"),
        ("default,separate-skip", ["#[serde(default)]", "#[serde(skip)]"], "i32"),
    ]
    res = []
    for (label, attrs, ty) in out:
        if attrs is None:
            v = rv()
            if label == "rename":
                attrs = ["#[serde(rename = %s)]" % rs(v)]
            elif label == "rename+default":
                attrs = ["#[serde(rename = %s, default)]" % rs(v)]
            elif label == "default+rename":
                attrs = ["#[serde(default, rename = %s)]" % rs(v)]
            elif label == "rename,separate-default":
                attrs = ["#[serde(rename = %s)]" % rs(v), "#[serde(default)]"]
            elif label == "skip_serializing_if+rename":
                attrs = ['#[serde(skip_serializing_if = "Option::is_none", rename = %s)]' % rs(v)]
            elif label == "rename+skip_serializing_if":
                attrs = ['#[serde(rename = %s, skip_serializing_if = "Option::is_none")]' % rs(v)]
        res.append((label, attrs, ty))
    return res


def variant_attr_variants(rnd):
    pool = RENAME_VALUES[:]
    rnd.shuffle(pool)
    rv = lambda: pool.pop()
    return [("none", []), ("rename", ["#[serde(rename = %s)]" % rs(rv())]), ("alias", ['#[serde(alias = "rename")]']),
            ("alias-named-skip", ['#[serde(alias = "skip_it")]']), ("rename,separate-alias", ["#[serde(rename = %s)]" % rs(rv()), '#[serde(alias = "zzz")]']),
            ("doc-mentions-rename", ['#[doc = "rename = \\"nope\\" skip"]']), ("rename-to-own-name", ['#[serde(rename = "@OWN@")]'])]


def container_extras(kind, ra, n):
    """other container-level serde keys, none of which changes a field key or a unit variant's literal (the oracle crate compiles the
    same attributes, so real serde says what they do). -> (attribute lines, rename_all still to be emitted by the struct/enum writer?)"""
    other = [r for r in RENAME_ALL if r and r != ra]
    o = other[n % len(other)]
    both = [[], ['#[serde(rename = "WireName%d")]' % n], ['#[serde(crate = "serde")]'], ['#[serde(bound = "")]'], ['#[serde(deny_unknown_fields)]'],
            ['#[serde(expecting = "rename_all = \\"UPPERCASE\\"")]']]
    if ra:
        both += [("inline", '#[serde(rename = "WireName%d", rename_all = "%s")]' % (n, ra)), ("inline", '#[serde(rename_all = "%s", deny_unknown_fields)]' % ra),
                 ("inline", '#[serde(deny_unknown_fields, rename_all = "%s", bound = "")]' % ra)]
    if kind == "enum":
        both += [['#[serde(rename_all_fields = "%s")]' % o]]
        if ra:
            both += [("inline", '#[serde(rename_all_fields = "%s", rename_all = "%s")]' % (o, ra)), ("inline", '#[serde(rename_all = "%s", rename_all_fields = "%s")]' % (ra, o)),
                     ("after", '#[serde(rename_all_fields = "%s")]' % o)]
    c = both[n % len(both)]
    if isinstance(c, tuple) and c[0] == "inline":
        return [c[1]], False
    if isinstance(c, tuple):
        return [c[1]], True
    return c, True


def container_keys(t):
    import re
    lines = " ".join(t.get("extras", ([], True))[0])
    keys = sorted(set(re.findall(r"[(, ](\w+)(?= = |,|\)\])", lines)) - {"rename_all"})
    return (" container-keys=" + "+".join(keys)) if keys else ""


def build_types(rnd, nstructs, nenums):
    """-> list of dict(kind,name,rename_all,items=[(ident, label, attrs, ty)])"""
    types = []
    n = 0
    for ra in RENAME_ALL:
        fav = field_attr_variants(rnd)
        # every attr variant once per rename_all, identifiers rotated; several structs per convention
        per = max(1, nstructs // len(RENAME_ALL))
        for s in range(per):
            items = []
            used = set()
            k = 0
            chunk = fav[s::per] if per > 1 else fav
            for (label, attrs, ty) in chunk:
                ident = FIELD_IDENTS[(k + s * 3 + n) % len(FIELD_IDENTS)]
                while ident in used:
                    k += 1
                    ident = FIELD_IDENTS[(k + s * 3 + n) % len(FIELD_IDENTS)]
                used.add(ident)
                items.append((ident, label, [a_.replace("@OWN@", ident.replace("r#", "")) for a_ in attrs], ty))
                k += 1
            # plus the remaining identifier shapes unattributed
            for ident in FIELD_IDENTS:
                if ident not in used and len(items) < 14:
                    used.add(ident)
                    items.append((ident, "none", [], "i32"))
            types.append({"kind": "struct", "name": "S%d" % n, "rename_all": ra, "items": items, "extras": container_extras("struct", ra, n)})
            n += 1
    for ra in RENAME_ALL:
        vav = variant_attr_variants(rnd)
        per = max(1, nenums // len(RENAME_ALL))
        for s in range(per):
            items = []
            idents = VARIANT_IDENTS[:]
            rnd.shuffle(idents)
            for j, ident in enumerate(idents):
                label, attrs = vav[(j + s) % len(vav)] if j < len(vav) else ("none", [])
                items.append((ident, label, [a_.replace("@OWN@", ident.replace("r#", "")) for a_ in attrs], None))
            types.append({"kind": "enum", "name": "E%d" % n, "rename_all": ra, "items": items, "extras": container_extras("enum", ra, n)})
            n += 1
    return types


def rust_defs(types, for_oracle):
    out = []
    for t in types:
        if t["kind"] == "struct":
            hidden = ("#[validate", "#[serde(skip_serializing)]", "#[serde(skip_deserializing)]", "#[serde(serialize_with", "#[serde(with")
            fields = [(ident, ty, [a for a in attrs if for_oracle is False or not a.startswith(hidden)]) for (ident, label, attrs, ty) in t["items"]]
            ex, emit_ra = t.get("extras", ([], True))
            out.append(rg.struct_src(t["name"], fields, rename_all=t["rename_all"] if emit_ra else None, attrs=ex + ["#[allow(non_snake_case)]"],
                                     derive_style=rg.DERIVE_STYLES[hash(t["name"]) % len(rg.DERIVE_STYLES)] if False else rg.DERIVE_STYLES[int(t["name"][1:]) % len(rg.DERIVE_STYLES)]))
        else:
            ex, emit_ra = t.get("extras", ([], True))
            out.append(rg.enum_src(t["name"], [(ident, attrs) for (ident, label, attrs, _) in t["items"]], rename_all=t["rename_all"] if emit_ra else None,
                                   attrs=ex + ["#[allow(non_camel_case_types)]"], derive_style=rg.DERIVE_STYLES[int(t["name"][1:]) % len(rg.DERIVE_STYLES)]))
    return "".join(out)


def oracle_program(types):
    src = ["#![allow(dead_code, unused_imports, non_snake_case, non_camel_case_types)]\nuse serde::{Serialize, Deserialize};\n",
           "fn skip_default() -> i32 { 0 }\nfn rename_default() -> i32 { 0 }\n", rust_defs(types, True), "fn main() {\n"]
    for t in types:
        if t["kind"] == "struct":
            inits = []
            for k, (ident, label, attrs, ty) in enumerate(t["items"]):
                inits.append("%s: %s" % (ident, "Some(%d)" % k if ty.startswith("Option") else "std::marker::PhantomData" if "PhantomData" in ty else "()" if ty == "()" else "%d" % k))
            src.append("    println!(\"%s\\t{}\", serde_json::to_string(&%s { %s }).unwrap());\n" % (t["name"], t["name"], ", ".join(inits)))
        else:
            vs = ", ".join("%s::%s" % (t["name"], ident) for (ident, _, _, _) in t["items"])
            src.append("    println!(\"%s\\t{}\", serde_json::to_string(&vec![%s]).unwrap());\n" % (t["name"], vs))
    src.append("}\n")
    return "".join(src)


def project_files(types):
    src = [rg.PRELUDE, "fn skip_default() -> i32 { 0 }\nfn rename_default() -> i32 { 0 }\n", rust_defs(types, False)]
    for t in types:
        src.append(rg.command_src("use_%s" % t["name"].lower(), [("v", t["name"])], t["name"]))
    return [("lib.rs", "".join(src))]


def observed_names(out, mode, t):
    """-> list of decoded keys / literals in declaration order, or None"""
    name = t["name"]
    if mode == "none":
        if t["kind"] == "struct":
            it = out.interfaces().get(name)
            if it is None:
                return None
            return [m[1] for m in it["members"] if m[0] == "prop"]
        al = out.aliases().get(name)
        if al is None:
            return None
        ty = al["type"]
        parts = ty[1] if ty[0] == "union" else [ty]
        if not all(p[0] == "lit" and isinstance(p[1], str) for p in parts):
            return None
        return [p[1] for p in parts]
    c = out.consts().get(name + "Schema")
    if c is None or c["init"] is None:
        return None
    e = c["init"]
    try:
        if t["kind"] == "struct":
            s = sh.zod_shape(e)
            if s[0] != "obj":
                return None
            return [p[0] for p in s[1]]
        # z.enum([...]) — keep order
        if e[0] == "call" and e[2] and e[2][0][0] == "array":
            return [x[1] for x in e[2][0][1] if x[0] == "str"]
    except sh.ShapeError:
        return None
    return None


def run_mode(a):
    cli, types, mode = a[:3]
    source = a[3] if len(a) > 3 else "flags"
    files = project_files(types)
    if source == "flags":
        g = proj.generate(cli, files, mode=mode, tag="c06")
    elif source.startswith("config-file-with-field-case="):
        # the configured default convention for fields is another one: it is a default — a struct that states its own rename_all (and a
        # field that states its own rename) is not touched by it
        g = proj.generate(cli, files, mode=mode, tag="c06", config={"default_field_case": source.split("=", 1)[1], "default_parameter_case": "kebab-case"})
    elif source == "config-file":
        # a stand-alone configuration file that sets nothing but the paths and the library: every other setting takes its default
        g = proj.generate(cli, files, mode=mode, tag="c06", config={"verbose": False})
    else:
        # the same through the plugins.typegen section of a tauri.conf.json discovered from the working directory
        import os
        root = common.scratch("c06t")
        common.write_tree(os.path.join(root, "src"), files)
        proj.write_tauri_conf(root, "./src", "./out", mode, {})
        r = common.run([cli, "tauri-typegen", "generate"], cwd=root)
        g = proj.Gen(r, root, os.path.join(root, "out"))
    try:
        if g.run.timed_out:
            return {"inconclusive": "watchdog"}
        if g.run.rc != 0:
            return {"failed": "rc=%s %s" % (g.run.rc, g.run.err[-300:])}
        out = g.output
        return {"names": {t["name"]: observed_names(out, mode, t) for t in types}, "parse_errors": len(out.errors())}
    finally:
        g.cleanup()


def item_class(t, ident, label):
    shape = "plain"
    if ident.startswith("r#"):
        shape = "raw"
    elif "__" in ident:
        shape = "double-underscore"
    elif ident.startswith("_"):
        shape = "leading-underscore"
    elif ident.endswith("_"):
        shape = "trailing-underscore"
    elif any(c.isdigit() for c in ident):
        shape = "digits"
    elif len(ident) == 1:
        shape = "single-letter"
    elif sum(1 for c in ident if c.isupper()) >= 2 and any(ident[i].isupper() and ident[i + 1].isupper() for i in range(len(ident) - 1)):
        shape = "acronym"
    elif t["kind"] == "enum" and ("_" in ident or ident.islower() or ident.isupper()):
        shape = "non-camel-variant"
    elif t["kind"] == "struct" and any(c.isupper() for c in ident):
        shape = "non-snake-field"
    return shape


def run(tier):
    v = Verdict("C06", "translation_validation", tier)
    cli = common.build_cli()
    rounds = 1 if tier == "quick" else 24
    programs = 0
    disagreements_checked = 0
    for rno in range(rounds):
        rnd = random.Random(common.seed() * 1000 + rno)
        types = build_types(rnd, 27 if tier == "quick" else 36, 9 if tier == "quick" else 18)
        ostdout = serde_oracle.run_serde(oracle_program(types))
        truth = {}
        peritem = {}
        for line in ostdout.splitlines():
            nm, js = line.split("\t", 1)
            val = json.loads(js)
            truth[nm] = list(val.keys()) if isinstance(val, dict) else list(val)
            # per-item truth: struct values are the item indices; enum strings are in item order
            peritem[nm] = {vv: kk for kk, vv in val.items()} if isinstance(val, dict) else dict(enumerate(val))
        programs += 1
        variants = [(m, src) for m in ("none", "zod") for src in ("flags", "config-file", "tauri.conf.json")]
        variants += [("none" if rno % 2 else "zod", "config-file-with-field-case=" + ["camelCase", "PascalCase", "kebab-case", "SCREAMING_SNAKE_CASE"][(rno + common.seed()) % 4])]
        res = common.pmap(run_mode, [(cli, types, m, src) for (m, src) in variants], workers=6)
        for (mode, source), r in zip(variants, res):
            stag = "" if source == "flags" else " settings-from=" + source
            if "inconclusive" in r:
                v.inconclusive.append("watchdog")
                continue
            if "failed" in r:
                v.inconclusive.append("generation failed for the C06 project: " + r["failed"])
                continue
            for t in types:
                if source.startswith("config-file-with-field-case=") and t["kind"] == "struct" and not t["rename_all"]:
                    continue      # the configured default applies: not serde's names by design
                want = truth[t["name"]]
                got = r["names"][t["name"]]
                if len(set(want)) != len(want):
                    v.count("generator_duplicate_wire_names_skipped")
                    continue
                idents = [i[0] for i in t["items"]]
                key = (t["kind"], t["rename_all"], tuple((i[0], i[1], tuple(i[2])) for i in t["items"]), mode, source)
                v.case(key, nontrivial=True)
                disagreements_checked += 1
                if len(v.samples) < 6:
                    v.samples.append({"type": t["name"], "kind": t["kind"], "rename_all": t["rename_all"], "mode": mode,
                                      "items": [[i[0], i[1]] + i[2] for i in t["items"][:5]], "serde_names": want[:5]})
                if got is None:
                    v.violation("C06 %s %s declaration-missing-or-unparsable%s" % (t["kind"], mode, stag),
                                "%s %s (rename_all=%s): no usable declaration in types.ts" % (t["kind"], t["name"], t["rename_all"]),
                                proj.witness_of(project_files([t]), mode))
                    continue
                v.count("names_compared", len(want))
                if got == want:
                    v.count("types_equal")
                    continue
                # attribute the difference to items
                blame = diff_items(t, want, got, peritem[t["name"]])
                for (ident, label, detail) in blame:
                    cls = item_class(t, ident, label)
                    ctag = container_keys(t)
                    sig = "C06 %s rename_all=%s attr=%s ident=%s%s%s" % (t["kind"] == "struct" and "field" or "variant", t["rename_all"], label, cls, stag, ctag)
                    v.violation(sig, "%s %s (rename_all=%s), item `%s` [%s]: %s; serde names %s, emitted %s (%s mode)" % (
                        t["kind"], t["name"], t["rename_all"], ident, label, detail, want, got, mode),
                        proj.witness_of(project_files([t]), mode, extra={"oracle_names": want}))
    v.extra["programs"] = programs
    v.extra["disagreements_checked"] = disagreements_checked
    rule = ("a case is one generated struct/enum (container rename_all x per-item attribute variants x identifier shapes) in one mode; "
            "all are non-trivial; distinct by the full definition. 'programs' = oracle crate builds; every case compares the decoded "
            "key/literal list with what real serde_json printed for the same definition")
    return v.finish(rule, assumptions=["real serde_derive/serde_json from the offline registry are the reference", "values built so optional keys are present"])


def diff_items(t, want, got, per):
    """attribute the difference to items. `per` maps item index -> the name serde really wrote (absent = skipped).
    The emitted list is aligned with the expected list by longest common subsequence."""
    import difflib
    items = t["items"]
    exp_idx = [k for k in range(len(items)) if k in per]          # items serde serialises, in order
    exp_names = [per[k] for k in exp_idx]
    blame = []
    sm = difflib.SequenceMatcher(a=exp_names, b=got, autojunk=False)
    for tag, i1, i2, j1, j2 in sm.get_opcodes():
        if tag == "equal":
            continue
        if tag == "replace" and (i2 - i1) == (j2 - j1):
            for d in range(i2 - i1):
                k = exp_idx[i1 + d]
                blame.append((items[k][0], items[k][1], "serde writes %r, emitted %r" % (exp_names[i1 + d], got[j1 + d])))
            continue
        for d in range(i1, i2):
            k = exp_idx[d]
            blame.append((items[k][0], items[k][1], "key %r that serde writes is absent (emitted instead: %r)" % (exp_names[d], got[j1:j2])))
        if i2 == i1:
            # extra emitted names: attribute to the serde-skipped items located at this position
            prev = exp_idx[i1 - 1] if i1 > 0 else -1
            nxt = exp_idx[i1] if i1 < len(exp_idx) else len(items)
            cands = [k for k in range(prev + 1, nxt) if k not in per]
            for n, extra in enumerate(got[j1:j2]):
                k = cands[n] if n < len(cands) else (cands[-1] if cands else 0)
                blame.append((items[k][0], items[k][1], "serde does not serialise this item but %r was emitted" % extra))
    if not blame:
        blame.append((items[0][0], "order", "same names in a different order"))
    return blame
