"""C10 — Zod schemas describe the same structure as the plain TypeScript declarations.
Each project is generated twice (none, zod) and compared item by item:
 (a) same set of type names and of parameter-object names,
 (b) per key the same shape after normalisation (Option may be omittable on the Zod side),
 (c) value level: JSON values that real serde produced for the parameter type are accepted by the parameter schema
     under the mini-Zod evaluator, and what the schema hands on is JSON-serialisable."""
import json
import random

from .. import common, proj, rustgen as rg, serde_oracle, shape as sh, zodeval
from ..common import Verdict
from . import c05, c07, defects

BATCH = 200


def observe(cli, types, external=(), config=None, files=None):
    files = files or c05.build_batch(types, external=external)
    res = {}
    for mode in ("none", "zod"):
        g = proj.generate(cli, files, mode=mode, tag="c10", config=config)
        try:
            if g.run.timed_out:
                return {"inconclusive": "watchdog"}
            if g.run.rc != 0:
                return {"blocked": "rc=%s" % g.run.rc}
            out = g.output
            if out.mods.get("types.ts") is None:
                return {"blocked": "no types.ts"}
            keep = set()
            for (_i, _t) in types:
                keep |= rg.named_in(_t)
            entry = {"decl": sorted(c07.declared(out, mode, keep=keep)), "errors": len(out.mods["types.ts"].errors)}
            if mode == "none":
                ifs = out.interfaces()
                entry["params"] = sorted(n for n in ifs if n.endswith("Params"))
                shapes = {}
                for (i, t) in types:
                    for site, iname, key in (("field", "F%d" % i, "v"), ("param", "Cmd%dParams" % i, "p")):
                        it = ifs.get(iname)
                        m = c05.prop_of(it["members"], key) if it else None
                        if m is None:
                            shapes[(i, site)] = None
                        else:
                            try:
                                shapes[(i, site)] = (sh.ts_shape(m[4]), bool(m[3]))
                            except sh.ShapeError:
                                shapes[(i, site)] = None
                entry["shapes"] = shapes
            else:
                consts = out.consts()
                entry["params"] = sorted(set(n[:-6] for n in consts if n.endswith("ParamsSchema")) |
                                         set(n for n in out.interfaces() if n.endswith("Params")) | set(n for n in out.aliases() if n.endswith("Params")))
                shapes = {}
                env = {n: c["init"] for n, c in consts.items() if c["init"] is not None}
                for (i, t) in types:
                    for site, cname, key in (("field", "F%dSchema" % i, "v"), ("param", "Cmd%dParamsSchema" % i, "p")):
                        ci = consts.get(cname)
                        if ci is None or ci["init"] is None:
                            shapes[(i, site)] = None
                            continue
                        try:
                            s = sh.zod_shape(ci["init"])
                            p = c05.zprop_of(s, key)
                            shapes[(i, site)] = (p[1], bool(p[2])) if p else None
                        except sh.ShapeError:
                            shapes[(i, site)] = None
                entry["shapes"] = shapes
                entry["env"] = env
            entry["pkeys"] = params_keys(out, mode)
            # the positions that carry a plain TypeScript type in BOTH modes (channel member of the parameter object, return type,
            # event payloads): the two modes print the same type there
            entry["ts_sites"] = {(i_, site_): got_ for (i_, site_, got_, _n) in c05.observe(out, types, mode) if site_ in ("channel", "return", "event", "event-let")}
            res[mode] = entry
        finally:
            g.cleanup()
    return res


def params_keys(out, mode):
    """-> {parameter-object name: sorted keys of the declared TypeScript type}. Zod mode: the keys of the schema a type is inferred
    from, plus what an interface adds on top"""
    ifs, res = out.interfaces(), {}
    if mode == "none":
        for n, it in ifs.items():
            if n.endswith("Params"):
                res[n] = sorted(m[1] for m in it["members"] if m[0] == "prop")
        return res
    consts = out.consts()

    def inferred(ty):
        if isinstance(ty, tuple) and ty[0] == "ref" and ty[1] == "z.infer" and ty[2] and ty[2][0][0] == "typeof":
            ci = consts.get(ty[2][0][1])
            if ci is not None and ci["init"] is not None:
                try:
                    s_ = sh.zod_shape(ci["init"])
                    if s_[0] == "obj":
                        return [p_[0] for p_ in s_[1]]
                except sh.ShapeError:
                    return None
        return None
    for n, it in ifs.items():
        if n.endswith("Params"):
            keys = [m[1] for m in it["members"] if m[0] == "prop"]
            for e in it["extends"]:
                k = inferred(e)
                if k is None:
                    keys = None
                    break
                keys += k
            res[n] = sorted(keys) if keys is not None else None
    for n, it in out.aliases().items():
        if n.endswith("Params") and n not in res:
            k = inferred(it["type"])
            res[n] = sorted(k) if k is not None else None
    return res


def same_structure(t, n, z):
    """none-mode (shape, optional?) vs zod-mode (shape, optional?)"""
    if n is None or z is None:
        return False
    ns, nopt = n
    zs, zopt = z
    if ns == zs:
        return True
    # Option rendered as omittable: none side `T | null`, zod side omittable T (consecutive top-level Options collapse)
    if zopt:
        core = ns
        if core[0] == "union" and ("null",) in core[1]:
            rest = [x for x in core[1] if x != ("null",)]
            core = rest[0] if len(rest) == 1 else ("union", tuple(rest))
            return zs == core or zs == ns
    return False


MAPPED = {"DateTime<Utc>": "string", "Uuid": "string", "PathBuf": "string", "Decimal": "number"}


def run_batch(a):
    cli, types, values = a[:3]
    mapped = len(a) > 3 and a[3]
    defined = a[4] if len(a) > 4 else ()
    files = None
    if defined:
        # some mapped names are project types (with a field type nothing else mentions): both modes must leave out the same names
        from . import c18
        files = c18.build(types, defined)
    r = observe(cli, types, external=tuple(MAPPED) if mapped else (), config={"type_mappings": MAPPED} if mapped else None, files=files)
    if "inconclusive" in r or "blocked" in r:
        return r
    out = {"names_none": r["none"]["decl"], "names_zod": r["zod"]["decl"], "params_none": r["none"]["params"], "params_zod": r["zod"]["params"],
           "diff": [], "compared": 0, "values": [], "values_checked": 0}
    for (i, t) in types:
        for site in ("field", "param"):
            n = r["none"]["shapes"].get((i, site))
            z = r["zod"]["shapes"].get((i, site))
            out["compared"] += 1
            if not same_structure(t, n, z):
                out["diff"].append((i, site, n, z))
    out["ts_sites_compared"] = 0
    out["ts_sites_diff"] = []
    for key, n in r["none"]["ts_sites"].items():
        z = r["zod"]["ts_sites"].get(key)
        out["ts_sites_compared"] += 1
        if n != z:
            out["ts_sites_diff"].append((key[0], key[1], n, z))
    # the parameter object as a whole: same keys in both modes (regular parameters and channels alike)
    out["pkeys_diff"] = []
    out["pkeys_compared"] = 0
    for n, kn in r["none"]["pkeys"].items():
        kz = r["zod"]["pkeys"].get(n)
        if n not in r["zod"]["pkeys"]:
            continue        # reported as a name-set difference
        out["pkeys_compared"] += 1
        if kz is None or kn != kz:
            out["pkeys_diff"].append((n, kn, kz))
    env = r["zod"]["env"]
    for (i, t) in types:
        vals = values.get(rg.rust(t))
        if not vals:
            continue
        cname = "Cmd%dParamsSchema" % i
        if cname not in env:
            continue
        top_opt = t[0] == "opt"
        for js in vals:
            val = json.loads(js)
            arg = {"f": {"v": val}, "p": val}
            if top_opt and val is None:
                # a caller omits an absent Option: null is not a value of the declared Zod-mode type (`T | undefined`);
                # "Option rendered as omittable" is what the statement itself prescribes
                del arg["p"]
                del arg["f"]["v"]
                out["option_null_omitted"] = out.get("option_null_omitted", 0) + 1
            # F{i}Schema validates f: build a value acceptable for it too
            try:
                rr = zodeval.zeval(env[cname], arg, env)
            except zodeval.ZodEvalError as e:
                out["values"].append((i, "evaluator", str(e), js))
                continue
            out["values_checked"] += 1
            if not rr.ok:
                out["values"].append((i, "rejected", rr.why, js))
            elif not zodeval.json_serialisable(rr.out):
                out["values"].append((i, "not-serialisable", "", js))
    return out


def run_collisions(a):
    """commands whose names derive one TypeScript name (get_user / getUser / get__user) in every order and with / without parameters:
    whatever names the parameter objects end up with, both modes must use the same ones with the same keys"""
    cli, k = a
    import itertools
    variants = [("get_user", []), ("getUser", [("id", "i32")]), ("get__user", [("w", "Named"), ("note", "Option<String>")]), ("get_user_", [("ch", "Channel<Named>")])]
    perm = list(itertools.permutations(range(4)))[k % 24]
    chosen = [variants[i] for i in perm[: 2 + k % 3]]
    src = rg.PRELUDE + "use tauri::ipc::Channel;\n\n" + rg.struct_src("Named", [("a", "i32")]) + "".join(
        rg.command_src(nm, ps, "Named") for nm, ps in chosen)
    files = [("lib.rs", src)]
    r = observe(cli, [], files=files)
    if "inconclusive" in r or "blocked" in r:
        return r
    viol = []
    pn, pz = r["none"]["pkeys"], r["zod"]["pkeys"]
    if sorted(pn) != sorted(pz):
        viol.append(("C10 params-name-sets-differ colliding-command-names", "commands %s: plain mode declares %s, Zod mode %s" % ([c[0] for c in chosen], sorted(pn), sorted(pz))))
    for n_ in pn:
        if n_ in pz and pn[n_] != pz[n_]:
            viol.append(("C10 parameter-object-keys-differ colliding-command-names", "commands %s: %s has keys %s in plain mode and %s in Zod mode" % ([c[0] for c in chosen], n_, pn[n_], pz[n_])))
    return {"viol": viol, "files": files, "n": len(pn)}


PARAM_CASES = ["kebab-case", "SCREAMING-KEBAB-CASE", "snake_case", "PascalCase", "SCREAMING_SNAKE_CASE", "lowercase", "UPPERCASE", "camelCase"]


def run_param_case(a):
    """the configured parameter-key convention (some conventions give keys that are not identifiers): the parameter objects have the
    same keys in both modes, whatever the keys look like"""
    cli, k = a
    case = PARAM_CASES[k % len(PARAM_CASES)]
    src = (rg.PRELUDE + "use tauri::ipc::Channel;\n\n" + rg.struct_src("Named", [("a", "i32")]) +
           rg.command_src("open_account", [("account_id", "u32"), ("include_closed", "bool"), ("x", "Option<Named>")], "Named") +
           rg.command_src("watch_account", [("account_id", "u32"), ("on_change_event", "Channel<Named>"), ("dry_run", "Option<bool>")], "i32") +
           rg.command_src("plain", [("id", "i32")], "i32"))
    files = [("lib.rs", src)]
    r = observe(cli, [], files=files, config={"default_parameter_case": case} if k // len(PARAM_CASES) % 2 == 0 or case != "camelCase" else None)
    if "inconclusive" in r or "blocked" in r:
        return r
    viol = []
    pn, pz = r["none"]["pkeys"], r["zod"]["pkeys"]
    if r["zod"]["errors"] or r["none"]["errors"]:
        viol.append(("C10 parameter-object-keys-differ parameter-case=%s types.ts-does-not-parse" % case, "types.ts has %d (plain) / %d (Zod) syntax errors under default_parameter_case %s" % (r["none"]["errors"], r["zod"]["errors"], case)))
    for n_ in sorted(set(pn) | set(pz)):
        if pn.get(n_) != pz.get(n_):
            viol.append(("C10 parameter-object-keys-differ parameter-case=%s" % case, "%s: plain mode has keys %s, the Zod-mode type has %s" % (n_, pn.get(n_), pz.get(n_))))
    return {"viol": viol, "files": files, "case": case}


VIS_FORMS = ["pub ", "", "pub(crate) ", "pub(super) ", "pub(in crate::models) "]


def run_visibility(a):
    """struct fields of every visibility (serde serialises private fields like public ones): the same keys in both modes, whatever the
    includePrivate setting says about them"""
    cli, k = a
    import itertools
    combo = list(itertools.product(range(len(VIS_FORMS)), repeat=3))[k % (len(VIS_FORMS) ** 3)]
    fields = "".join("    %s%s: %s,\n" % (VIS_FORMS[v], nm, ty) for v, (nm, ty) in zip(combo, [("user_name", "String"), ("token", "Option<String>"), ("tags", "Vec<Named>")]))
    src = (rg.PRELUDE + "use tauri::{AppHandle, Emitter};\n\n" + rg.struct_src("Named", [("a", "i32")]) + "#[derive(Serialize, Deserialize)]\n%sstruct Session {\n%s}\n\n" % (VIS_FORMS[k % 3], fields) +
           rg.command_src("login", [("s", "Session")], "Session") + "pub fn expired(app: AppHandle, s: Session) {\n    app.emit(\"expired\", s).unwrap();\n}\n")
    files = [("lib.rs", src)]
    cfg = {"include_private": True} if k % 4 == 3 else None
    keys = {}
    for mode in ("none", "zod"):
        g = proj.generate(cli, files, mode=mode, tag="c10v", config=cfg)
        try:
            if g.run.rc != 0 or g.output.mods.get("types.ts") is None:
                return {"blocked": True}
            if mode == "none":
                it = g.output.interfaces().get("Session")
                keys[mode] = sorted(m[1] for m in it["members"] if m[0] == "prop") if it else None
            else:
                ci = g.output.consts().get("SessionSchema")
                try:
                    s_ = sh.zod_shape(ci["init"]) if ci and ci["init"] is not None else None
                    keys[mode] = sorted(p_[0] for p_ in s_[1]) if s_ and s_[0] == "obj" else None
                except sh.ShapeError:
                    keys[mode] = None
        finally:
            g.cleanup()
    viol = []
    if keys["none"] != keys["zod"]:
        viol.append(("C10 struct-keys-differ field-visibility", "fields declared %s (include_private %s): plain mode has keys %s, the Zod schema has %s" % (
            [VIS_FORMS[v].strip() or "private" for v in combo], bool(cfg), keys["none"], keys["zod"])))
    return {"viol": viol, "files": files}


def run_graph_names(a):
    """(a) on whole projects: the same type-dependency graph (roots incl. event payloads, channels, nested event-only types) must declare
    the same set of project types and of parameter objects in both modes"""
    cli, idx, seed = a
    rnd = random.Random(seed)
    files, expected, info = c07.gen_case(rnd, idx)
    names = {}
    tnames = {}
    for mode in ("none", "zod"):
        g = proj.generate(cli, files, mode=mode, tag="c10g")
        try:
            if g.run.rc != 0 or g.output.mods.get("types.ts") is None or g.output.mods["types.ts"].errors:
                return {"blocked": True}
            names[mode] = sorted(c07.declared(g.output, mode, keep=info["all"]))
            # the names usable as TYPES (what commands.ts / events.ts and the frontend spell as types.X): interfaces and type aliases
            tnames[mode] = sorted({it["name"] for it in g.output.items("types.ts") if it["kind"] in ("interface", "type")})
        finally:
            g.cleanup()
    return {"none": names["none"], "zod": names["zod"], "tnone": tnames["none"], "tzod": tnames["zod"], "files": [[p, t] for p, t in files], "n": info["n"]}


def run(tier):
    v = Verdict("C10", "exploration", tier)
    cli = common.build_cli()
    rnd = random.Random(common.seed())
    maxd = 2 if tier == "quick" else 3
    types = rg.chains(maxd)
    for _ in range(200 if tier == "quick" else 12000):
        types.append(rg.random_type(rnd, rnd.randint(2, 5)))
    # project types whose names end the way generated names end (TableSchema next to Table, QueryParams): a reference must reach the
    # schema of the type that was named
    for nm in ("Table", "TableSchema", "Schema", "JsonSchema", "QueryParams", "QueryParamsSchema", "Größe", "Währung", "データ", "Ünïcode", "T", "K", "Value", "JsonValue", "Item_V2", "_Private", "Any", "Map"):
        types.append(rg.N(nm))
        for (_, f) in rg.slots()[:9]:
            types.append(f(rg.N(nm)))
    seen = set()
    uniq = []
    for t in types:
        r = rg.rust(t)
        if r not in seen:
            seen.add(r)
            uniq.append(t)
    # value level: real serde values for a compilable sample (no refs / Result / unit)
    def no_unit(t):
        if t[0] == "unit":
            return False
        if t[0] in ("prim", "named"):
            return True
        if t[0] == "tuple":
            return all(no_unit(x) for x in t[1])
        return all(no_unit(x) for x in t[1:])
    cands = [t for t in uniq if serde_oracle.compilable(t) and no_unit(t) and not rg.has_ref(t) and rg.named_in(t) <= {"Named"}]
    rnd.shuffle(cands)
    sample = cands[: (150 if tier == "quick" else 1500)]
    body = [serde_oracle.SAMPLE_PRELUDE, "fn main() {\n"] + ["    show::<%s>(%d);\n" % (rg.rust(t), i) for i, t in enumerate(sample)] + ["}\n"]
    values = {}
    for line in serde_oracle.run_serde("".join(body)).splitlines():
        idx, vv, js = line.split("\t", 2)
        if not js.startswith("ERR"):
            values.setdefault(rg.rust(sample[int(idx)]), []).append(js)
    types = list(enumerate(uniq))
    tmap = dict(types)
    jobs = [(cli, types[k:k + BATCH], {rg.rust(t): values[rg.rust(t)] for (_, t) in types[k:k + BATCH] if rg.rust(t) in values}) for k in range(0, len(types), BATCH)]
    # the same comparison under a type-mapping table (foreign types, one of them keyed by a generic instantiation): a mapped
    # position must have the same structure in both modes as well
    from . import c18
    mtypes = []
    for nm in MAPPED:
        mtypes.extend(c18.positions(nm)[: (12 if tier == "quick" else 40)])
    mtypes = [(len(types) + k, t) for k, t in enumerate(mtypes)]
    tmap.update(dict(mtypes))
    jobs.append((cli, mtypes, {}, True))
    for defined in (("Uuid",), ("Decimal", "PathBuf"), tuple(n for n in MAPPED if "<" not in n)):
        jobs.append((cli, mtypes, {}, True, defined))
    res = common.pmap(run_batch, jobs)
    for (job, r) in zip(jobs, res):
        if "inconclusive" in r:
            v.inconclusive.append("watchdog")
            continue
        if len(job) > 3 and job[3]:
            v.count("keys_compared_under_type_mappings", r.get("compared", 0))
        if "blocked" in r:
            v.blocked += len(job[1])
            v.evaluations += len(job[1])
            continue
        for (i, t) in job[1]:
            v.case(rg.rust(t), nontrivial=rg.depth(t) >= 1)
        v.count("keys_compared", r["compared"])
        v.count("serde_values_checked", r["values_checked"])
        v.count("top_level_none_sent_as_omitted_key", r.get("option_null_omitted", 0))
        is_mapped = len(job) > 3 and job[3]
        defined = job[4] if len(job) > 4 else ()
        if defined:
            v.count("name_sets_compared_with_project_defined_mapped_types")
        wit = lambda i: proj.witness_of(c18.build(job[1], defined) if defined else c05.build_batch([(i, tmap[i])], external=tuple(MAPPED) if is_mapped else ()), "both",
                                        config={"type_mappings": MAPPED} if is_mapped else None, extra={"type": rg.rust(tmap[i])})
        if r["names_none"] != r["names_zod"]:
            v.violation("C10 type-name-sets-differ" + (" mapped-project-types" if defined else ""), "none declares %s, zod declares %s" % (sorted(set(r["names_none"]) - set(r["names_zod"])), sorted(set(r["names_zod"]) - set(r["names_none"]))), wit(job[1][0][0]))
        if r["params_none"] != r["params_zod"]:
            v.violation("C10 params-name-sets-differ", "only none: %s; only zod: %s" % (sorted(set(r["params_none"]) - set(r["params_zod"]))[:5], sorted(set(r["params_zod"]) - set(r["params_none"]))[:5]), wit(job[1][0][0]))
        v.count("parameter_objects_key_sets_compared", r.get("pkeys_compared", 0))
        for (n_, kn, kz) in r.get("pkeys_diff", [])[:3]:
            idx_ = int("".join(ch for ch in n_ if ch.isdigit()) or job[1][0][0])
            v.violation("C10 parameter-object-keys-differ only-%s" % ("plain" if kz is not None and set(kn) - set(kz) else "zod" if kz is not None else "zod-unreadable"),
                        "%s: plain mode declares keys %s, the Zod-mode type has %s" % (n_, kn, kz), wit(idx_ if idx_ in tmap else job[1][0][0]))
        v.count("plain_type_positions_compared_between_modes", r.get("ts_sites_compared", 0))
        for (i, site, n, z) in r.get("ts_sites_diff", [])[:6]:
            if i not in tmap:
                continue
            v.violation("C10 plain-type-position-differs-between-modes site=%s %s" % (site, rg.skeleton(tmap[i])),
                        "%s of Rust type `%s`: plain mode prints %s, Zod mode prints %s" % (site, rg.rust(tmap[i]), sh.show(n) if n else "<nothing usable>", sh.show(z) if z else "<nothing usable>"), wit(i))
        for (i, site, n, z) in r["diff"]:
            t = tmap[i]
            if is_mapped:
                t = c18.subst(t, MAPPED)       # judged as the type it is mapped to
            sigs = classify(t, site, n, z)
            what = "%s site, Rust type `%s`: plain mode declares %s, Zod schema describes %s" % (
                site, rg.rust(t), (sh.show(n[0]) + ("?" if n[1] else "")) if n else "<nothing usable>", (sh.show(z[0]) + ("?" if z[1] else "")) if z else "<nothing usable>")
            for s in sigs:
                v.violation("C10 " + s, what, wit(i))
        for (i, kind, why, js) in r["values"]:
            t = tmap[i]
            flags = set()
            defects.zod_defective_shape(t, flags)
            if kind == "rejected" and "set-rendered-z.set" in flags and "z.set()" in why:
                sig = "C10 value-rejected set-rendered-z.set"
            elif kind == "evaluator":
                v.inconclusive.append("mini-Zod cannot evaluate: %s" % why)
                continue
            else:
                sig = "C10 value-%s %s" % (kind, rg.skeleton(t))
            v.violation(sig, "parameter of Rust type `%s`: the value %s that serde produces is %s by the parameter schema (%s)" % (rg.rust(t), js, kind, why), wit(i))
    cjobs = [(cli, k) for k in range(72)]
    for (job, r) in zip(cjobs, common.pmap(run_collisions, cjobs, chunksize=4)):
        if "inconclusive" in r or "blocked" in r:
            v.blocked += 1
            continue
        v.case(("colliding-command-names", job[1]), nontrivial=True)
        v.count("colliding_name_projects_compared")
        for (sig, what) in r["viol"]:
            v.violation(sig, what, proj.witness_of(r["files"], "both"))
    pjobs = [(cli, k_) for k_ in range(2 * len(PARAM_CASES))]
    for (job, r) in zip(pjobs, common.pmap(run_param_case, pjobs, chunksize=2)):
        if "inconclusive" in r or "blocked" in r:
            v.blocked += 1
            v.evaluations += 1
            continue
        v.case(("parameter-case", job[1]), nontrivial=True)
        v.count("parameter_case_settings_compared")
        for (sig, what) in r["viol"]:
            v.violation(sig, what, proj.witness_of(r["files"], "both", config={"default_parameter_case": r["case"]}))
    vjobs = [(cli, k_) for k_ in (range(common.seed() % 3, 125, 3) if tier == "quick" else range(250))]
    for (job, r) in zip(vjobs, common.pmap(run_visibility, vjobs, chunksize=4)):
        if "blocked" in r:
            v.blocked += 1
            v.evaluations += 1
            continue
        v.case(("visibility", job[1]), nontrivial=True)
        v.count("field_visibility_combinations")
        for (sig, what) in r["viol"]:
            v.violation(sig, what, proj.witness_of(r["files"], "both"))
    gjobs = [(cli, i, common.seed() * 100003 + i) for i in range(200 if tier == "quick" else 3000)]
    for (job, r) in zip(gjobs, common.pmap(run_graph_names, gjobs, chunksize=4)):
        if "blocked" in r:
            v.blocked += 1
            v.evaluations += 1
            continue
        v.case(("graph", job[2]), nontrivial=r["n"] >= 2)
        v.count("whole_project_name_set_comparisons")
        if r["none"] != r["zod"]:
            v.violation("C10 type-name-sets-differ project only-%s" % ("plain" if set(r["none"]) - set(r["zod"]) else "zod"),
                        "plain mode declares %s, Zod mode declares %s" % (sorted(set(r["none"]) - set(r["zod"])), sorted(set(r["zod"]) - set(r["none"]))),
                        {"files": r["files"], "mode": "both"})
        if r["tnone"] != r["tzod"]:
            v.violation("C10 type-level-name-sets-differ project only-%s" % ("plain" if set(r["tnone"]) - set(r["tzod"]) else "zod"),
                        "as types (interface / type alias), plain mode declares %s and Zod mode declares %s" % (sorted(set(r["tnone"]) - set(r["tzod"])), sorted(set(r["tzod"]) - set(r["tnone"]))),
                        {"files": r["files"], "mode": "both"})
    v.extra["serde_sample_types"] = len(sample)
    rule = ("a case is one Rust type expression placed at the field and parameter sites of a project generated in both modes; non-trivial = "
            "constructor depth >= 1; distinct by rendered type. Chains exhaustive to the stated depth plus seeded deeper trees; value-level check "
            "on the serde_json values of a compilable sample")
    return v.finish(rule, assumptions=["mini-Zod follows Zod 4's documented semantics for the emitted combinators; refinements are not structural",
                                       "a caller omits an absent top-level Option (null for a top-level optional key is not a value of the declared Zod-mode type)"])


def classify(t, site, n, z):
    generic = "%s %s none=%s zod=%s" % (site, rg.skeleton(t), sh.shape_skeleton(n[0]) if n else "unusable", sh.shape_skeleton(z[0]) if z else "unusable")
    if n is None or z is None:
        return [generic]
    # explained exactly by recorded defect models on either side?
    nm = defects.ts_model_shape(defects.ts_text_model(t))
    zflags = set()
    zm = defects.zod_defective_shape(t, zflags)
    zshape = ("optional", z[0]) if z[1] else z[0]
    nflag = nm is not None and nm != rg.M(t)
    if nm is not None and n[0] == nm and zshape == zm and (nflag or zflags):
        sigs = ["zod-side " + f for f in sorted(zflags)]
        if nflag:
            sigs.append("plain-side array-of-nullable-unparenthesised")
        return sigs
    return [generic]
