"""C03 — exactly one wrapper per discovered command, invoking exactly its Rust name.
Generated directory layouts with ground truth (which functions are commands, which are decoys and why)."""
import random

from .. import common, proj, rustgen as rg, shape as sh
from ..common import Verdict

ATTRS = [
    ("tauri::command", "#[tauri::command]"),
    ("command", "#[command]"),
    ("tauri::command(rename_all)", '#[tauri::command(rename_all = "snake_case")]'),
    ("tauri::command(async)", "#[tauri::command(async)]"),
    ("tauri::command(rename_all,async)", '#[tauri::command(async, rename_all = "camelCase")]'),
    ("tauri :: command", "#[tauri :: command]"),
    ("tauri::command()", "#[tauri::command()]"),
]
LOOKALIKES = ["#[other::command]", "#[tauri::commands]", "#[test]", "#[command_handler]", "#[tauri::cmd]", "#[tauri::command::inner]",
              "#[mycrate::tauri::command]", "#[inline]", '#[doc = "#[tauri::command]"]', "#[allow(dead_code)]", "#[commands]"]
OTHER_ATTRS = ["#[allow(unused)]", "#[inline]", '#[cfg(feature = "x")]', "#[must_use]", "#[allow(clippy::too_many_arguments)]", "#[tracing::instrument]",
               # conditional compilation in all its spellings: the function is annotated and at the top level of its file, whatever gates it
               "#[cfg(not(test))]", "#[cfg(any(test, debug_assertions))]", '#[cfg(all(not(test), target_os = "macos"))]', "#[cfg(desktop)]", "#[cfg(test)]",
               '#[cfg_attr(feature = "trace", tracing::instrument)]', "#[cfg(debug_assertions)]", '#[cfg(any(target_os = "linux", target_os = "windows"))]',
               '#[doc = "not #[cfg(test)]"]', "#[specta::specta]", "#[deprecated]"]
VIS = ["pub ", "", "pub(crate) ", "pub(super) "]
RETS = [(None, ("void",)), ("String", ("str",)), ("i32", ("num",)), ("bool", ("bool",)), ("Result<String, String>", ("str",)),
        ("Vec<u8>", ("arr", ("num",))), ("HashSet<String>", ("arr", ("str",))), ("Result<BTreeSet<u32>, String>", ("arr", ("num",))),
        ("Option<HashSet<bool>>", ("union", (("arr", ("bool",)), ("null",)))), ("(i32, String)", ("tuple", (("num",), ("str",)))), ("HashMap<String, Vec<i32>>", ("rec", ("str",), ("arr", ("num",)))), ("Option<f64>", ("union", (("null",), ("num",)))), ("()", ("void",)), ("Result<(), String>", ("void",))]
DIRS = ["", "commands", "commands/nested", "a/b/c/d", "my_target", "targets", "target_old", "git", "src_target/x", ".hidden", "mod.rs.d",
        "with space/sub dir", "ünï/côdé", "日本", "a-b.c/d+e", "UPPER/Case", "x/" * 12 + "deep"]


PARAM_LAYOUTS = [[], [("a", "i32")], [("a", "i32"), ("b", "String")], [("on_event", "Channel<String>")], [("on_a", "Channel<i32>"), ("on_b", "Channel<bool>")],
                 [("app", "AppHandle"), ("on_event", "Channel<String>")], [("a", "i32"), ("on_event", "Channel<String>")], [("app", "AppHandle")],
                 [("window", "tauri::Window"), ("a", "i32")], [("a", "i32"), ("b", "String")], []]


def gen_project(rnd, idx):
    """-> (files[(path,text)], truth{name: dict}, decoys{name: origin}, features)"""
    nfiles = rnd.randint(1, 8)
    files = []
    truth = {}
    decoys = {}
    n = [0]

    def fresh(prefix):
        n[0] += 1
        return "%s_%d_%d" % (prefix, idx, n[0])

    def command(origin_ok=True):
        name = fresh("cmd")
        akey, atext = rnd.choice(ATTRS)
        vis = rnd.choice(VIS)
        is_async = rnd.random() < 0.5
        ret, rshape = rnd.choice(RETS)
        # parameter layouts select different wrapper templates (no parameters / plain / channels only / mixed / injected only)
        params = rnd.choice(PARAM_LAYOUTS)
        pre = rnd.sample(OTHER_ATTRS, rnd.randint(0, 2))
        post = rnd.sample(OTHER_ATTRS, rnd.randint(0, 1))
        doc = rnd.choice([None, "does a thing", "#[tauri::command] is mentioned in this doc"])
        # generic commands: over the runtime (plugin / library code), over a lifetime, with the bound in a where clause
        gen, where = "", ""
        gk = rnd.random()
        if gk < 0.12:
            gen, params = "<R: tauri::Runtime>", [("handle", "tauri::AppHandle<R>")] + list(params)
        elif gk < 0.2:
            gen, where, params = "<R>", "R: tauri::Runtime", list(params) + [("win", "tauri::WebviewWindow<R>")]
        elif gk < 0.28:
            gen, params = "<'a>", [("db", "tauri::State<'a, Db>")] + list(params)
        elif gk < 0.33:
            gen, params = "<'a, R: tauri::Runtime>", [("handle", "&'a tauri::AppHandle<R>")] + list(params)
        src = rg.command_src(name, params, ret, is_async, atext, vis, pre_attrs=pre, post_attrs=post, doc=doc, generics=gen, where=where)
        layout = ("channels-only" if params and all(t.startswith("Channel") or t in ("AppHandle", "tauri::Window") or t.startswith(("tauri::AppHandle<", "tauri::WebviewWindow<", "tauri::State<", "&'a tauri::AppHandle<")) for (_, t) in params) and any(t.startswith("Channel") for (_, t) in params)
                  else "mixed" if any(t.startswith("Channel") for (_, t) in params) else "none" if not params else "plain")
        return name, src, {"attr": akey, "vis": vis.strip() or "private", "async": is_async, "ret": rshape, "pre": len(pre), "post": len(post), "layout": layout + ("+generic" + gen.replace(" ", "") if gen else "")}

    def decoy_items():
        out = []
        k = rnd.random()
        nm = fresh("helper")
        out.append(("helper", nm, "pub fn %s(x: i32) -> i32 { x }\n\n" % nm))
        nm = fresh("look")
        la = rnd.choice(LOOKALIKES)
        out.append(("lookalike:" + la, nm, "%s\npub fn %s() {}\n\n" % (la, nm)))
        nm = fresh("method")
        out.append(("impl-method", nm, "pub struct S%s;\nimpl S%s {\n    #[tauri::command]\n    pub fn %s(&self) -> i32 { 1 }\n}\n\n" % (nm, nm, nm)))
        nm = fresh("inmod")
        out.append(("nested-mod", nm, "pub mod m_%s {\n    #[tauri::command]\n    pub fn %s() -> i32 { 1 }\n}\n\n" % (nm, nm)))
        nm = fresh("traitfn")
        out.append(("trait-method", nm, "pub trait T%s {\n    #[tauri::command]\n    fn %s(&self) -> i32 { 1 }\n}\n\n" % (nm, nm)))
        nm = fresh("nestedfn")
        out.append(("fn-inside-fn", nm, "pub fn outer_%s() {\n    #[tauri::command]\n    fn %s() {}\n}\n\n" % (nm, nm)))
        nm = fresh("commented")
        out.append(("commented-out", nm, "// #[tauri::command]\n// pub fn %s() {}\n/* #[tauri::command]\npub fn %s_b() {} */\n\n" % (nm, nm)))
        nm = fresh("instring")
        out.append(("inside-string", nm, "pub const SRC_%s: &str = \"#[tauri::command]\\npub fn %s() {}\";\n\n" % (nm.upper(), nm)))
        nm = fresh("macro")
        out.append(("inside-macro", nm, "macro_rules! mk_%s { () => { #[tauri::command]\n pub fn %s() {} }; }\n\n" % (nm, nm)))
        rnd.shuffle(out)
        return out[: rnd.randint(1, 4)]

    feats = set()
    for f in range(nfiles):
        d = rnd.choice(DIRS)
        path = (d + "/" if d else "") + "f%d.rs" % f
        if d and idx % 4 == 2:
            # module files named like things cargo / git / the tool know: below the project path they are ordinary source files
            path = d + "/" + ["build.rs", "mod.rs", "main.rs", "target.rs", "tests.rs", "commands.rs", "types.rs", "index.rs", "lib.rs"][(idx // 4 + f) % 9]
            if any(p == path for p, _ in files):
                path = (d + "/" if d else "") + "f%d.rs" % f
        body = [rg.PRELUDE]
        for _ in range(rnd.randint(0, 4)):
            name, src, info = command()
            info["file"] = path
            info["depth"] = path.count("/")
            truth[name] = info
            body.append(src)
        for (origin, nm, src) in decoy_items():
            decoys[nm] = origin
            body.append(src)
        rnd.shuffle(body[1:])
        text = "".join(body)
        if rnd.random() < 0.3:
            text = text.replace("\n\n", "\n\n// noise\n\n", 1)
        if rnd.random() < 0.25:
            # text that other tools read as "this file is generated / not to be touched": a comment or a string says nothing about
            # whether the functions below it are commands
            marker = rnd.choice(["// @generated by report-app, do not edit\n", "pub const BANNER: &str = \"// @generated\";\n", "// Code generated by protoc-gen-rust. DO NOT EDIT.\n",
                                 "// This file is automatically @generated by Cargo.\n", "/* eslint-disable */ // autogenerated\n", "#![cfg_attr(rustfmt, rustfmt_skip)]\n// @generated SignedSource<<abc>>\n",
                                 "// <auto-generated/>\n", "//! @generated\n", "// vim: set ft=rust: @nolint @generated\n"])
            if marker.startswith(("#!", "//!")):
                text = marker + text
            else:
                text = text.replace("\n\n", "\n\n" + marker + "\n", 1) if rnd.random() < 0.5 else marker + text
            feats.add("generated-file-marker")
        if rnd.random() < 0.3:
            # what a Rust source file may legally start with before its first item
            lead = rnd.choice(["#!/usr/bin/env rust-script\n", "#!/usr/bin/env -S cargo +nightly -Zscript\n", "\ufeff", "\ufeff#!/usr/bin/env rust-script\n", "#![allow(dead_code)]\n",
                               "//! crate documentation\n//! second line\n", "/*! block doc */\n", "\n\n\n", "#!/bin/sh\n#![allow(unused)]\n"])
            text = lead + text
            feats.add("file-lead:" + repr(lead)[1:12])
        files.append((path, text))
    if idx % 6 == 1:
        # two different commands whose names camelCase to one TypeScript identifier: each still needs its own wrapper
        stem = "fetch_%d" % idx
        pair = rnd.choice([(stem + "_user", "fetch%dUser" % idx), (stem + "_x", stem + "__x"), (stem + "_y", stem + "_y_")])
        akey, atext = ATTRS[0]
        extra = ""
        for nm in pair:
            extra += rg.command_src(nm, rnd.choice(PARAM_LAYOUTS[:3]), "i32", False, atext, "pub ")
            truth[nm] = {"attr": akey, "vis": "pub", "async": False, "ret": ("num",), "pre": 0, "post": 0, "layout": "plain", "file": "colliding.rs", "depth": 0}
        files.append(("colliding.rs", rg.PRELUDE + extra))
        feats.add("camelCase-colliding-command-names")
    if idx % 6 == 4:
        # commands named like what commands.ts itself binds (`import { invoke }`, `import * as types`): the wrapper must still reach
        # Tauri's invoke, not itself
        akey, atext = ATTRS[0]
        extra = ""
        for nm in rnd.sample(["invoke", "types", "invoke_", "types_", "listen", "channel"], 3):
            extra += rg.command_src(nm, rnd.choice(PARAM_LAYOUTS[:3]), "i32", False, atext, "pub ")
            truth[nm] = {"attr": akey, "vis": "pub", "async": False, "ret": ("num",), "pre": 0, "post": 0, "layout": "plain", "file": "bindings.rs", "depth": 0}
        files.append(("bindings.rs", rg.PRELUDE + extra))
        feats.add("commands-named-like-module-bindings")
    if idx % 6 == 2:
        # commands written with raw identifiers (fn r#type): the command's name — what Tauri registers and invoke must say — is the
        # identifier without the r# prefix
        akey, atext = ATTRS[0]
        extra = ""
        for nm in rnd.sample(["type", "move", "match", "ref", "loop", "try", "dyn", "in"], 3):
            extra += rg.command_src("r#" + nm, rnd.choice(PARAM_LAYOUTS[:3]), "i32", False, atext, "pub ")
            truth[nm] = {"attr": akey, "vis": "pub", "async": False, "ret": ("num",), "pre": 0, "post": 0, "layout": "plain", "file": "raw_names.rs", "depth": 0}
        files.append(("raw_names.rs", rg.PRELUDE + extra))
        feats.add("raw-identifier-command-names")
    if not truth:
        name, src, info = command()
        info["file"] = "lib.rs"
        info["depth"] = 0
        truth[name] = info
        files.append(("lib.rs", rg.PRELUDE + src))
    # decoy trees
    if rnd.random() < 0.6:
        nm = fresh("in_target")
        decoys[nm] = "target-dir"
        files.append((rnd.choice(["target/debug/build/x.rs", "target/x.rs", "sub/target/gen.rs"]), "#[tauri::command]\npub fn %s() {}\n" % nm))
        feats.add("target-decoy")
    if rnd.random() < 0.4:
        nm = fresh("in_git")
        decoys[nm] = "git-dir"
        files.append((rnd.choice([".git/hooks/x.rs", ".git/x.rs", "sub/.git/y.rs"]), "#[tauri::command]\npub fn %s() {}\n" % nm))
        feats.add("git-decoy")
    if rnd.random() < 0.5:
        nm = fresh("non_rs")
        decoys[nm] = "non-rs-file"
        files.append((rnd.choice(["notes.txt", "old.rs.bak", "lib.rs~", "x.RS", "readme.md", "rs"]), "#[tauri::command]\npub fn %s() {}\n" % nm))
        feats.add("non-rs")
    if rnd.random() < 0.5:
        nm = fresh("broken")
        decoys[nm] = "unparsable-file"
        bad = rnd.choice(["#[tauri::command]\npub fn %s( {\n" % nm, "this is not rust at all {{{ %s" % nm, "#[tauri::command]\npub fn %s() -> { }\nfn ok() {}" % nm,
                          "pub fn %s() { let x = ; }" % nm, "\"unterminated %s" % nm,
                          "#[tauri::command]\npub fn %s() {\n    let greeting = \"日本語のあいさつ\" \"x\";\n}\n" % nm,
                          "// ünïcödé prefix\npub fn %s() { let ñ = \"é\" ; ; ) }\n" % nm])
        files.append((rnd.choice(["broken.rs", "a/broken.rs", "zz_broken.rs", "0_broken.rs"]), bad))
        feats.add("unparsable-neighbour")
    if idx % 4 == 1:
        # a .rs file that is not even text the tool can decode (a legacy-encoded file left in the tree): the same kind of neighbour
        nm = fresh("latin")
        decoys[nm] = "unparsable-file"
        files.append((rnd.choice(["legacy_encoding.rs", "a/old_latin1.rs", "00_first.rs"]), "\0latin1:// r\xe9sum\xe9 of the caf\xe9 module\n#[tauri::command]\npub fn %s() {}\n" % nm))
        feats.add("undecodable-neighbour")
    if rnd.random() < 0.2:
        files.append(("empty.rs", ""))
        feats.add("empty-file")
    if idx % 5 == 2:
        # a source file shared between projects: a symbolic link under the project path to a regular file outside it
        name, src, info = command()
        info["file"] = "linked/shared_cmds.rs -> ../../shared_src/cmds.rs"
        info["depth"] = 1
        truth[name] = info
        files.append(("../shared_src/cmds.rs", rg.PRELUDE + src))
        files.append(("linked/shared_cmds.rs", "\0symlink:../../shared_src/cmds.rs"))
        feats.add("symlinked-source-file")
    rnd.shuffle(files)
    return files, truth, decoys, feats


ANCESTORS = [None, None, None, "target", ".git", "x/target/y", "my.git", "target2", ".github"]


def run_case(a):
    cli, idx, seed, mode = a[:4]
    rnd = random.Random(seed)
    files, truth, decoys, feats = gen_project(rnd, idx)
    # the exclusion of target/ and .git/ is about directories UNDER the project path: an ancestor directory of the project
    # that happens to be called target or .git must exclude nothing (DESIGN 4.2)
    anc = ANCESTORS[idx % len(ANCESTORS)]
    if anc:
        feats.add("ancestor-dir:" + anc.split("/")[-2 if anc.endswith("/y") else -1])
    g = proj.generate(cli, files, mode=mode, tag="c03", src_name=(anc + "/app/src") if anc else "src")
    try:
        if g.run.timed_out:
            return {"inconclusive": "watchdog"}
        res = {"n_expected": len(truth), "n_decoys": len(decoys), "feats": sorted(feats), "viol": [], "files": len(files),
               "max_depth": max(i["depth"] for i in truth.values()), "attrs": sorted({i["attr"] for i in truth.values()}),
               "layouts": [i["layout"] for i in truth.values()]}
        if g.run.rc != 0:
            res["viol"].append(("C03 generation-failed-although-commands-exist", "rc=%s stderr=%s" % (g.run.rc, g.run.err[-300:])))
            return dict(res, witness=proj.witness_of(files, mode))
        out = g.output
        if "commands.ts" not in out.mods:
            res["viol"].append(("C03 commands.ts-missing%s" % "".join(" " + f for f in sorted(feats) if f.startswith("ancestor-dir")), "no commands.ts although %d commands exist; stdout=%s" % (len(truth), g.run.out[-200:])))
            return dict(res, witness=proj.witness_of(files, mode))
        if out.mods["commands.ts"].errors:
            pf = common.parse_fault(out, ("commands.ts",))
            res["viol"].append(("C03 commands.ts-does-not-parse " + pf[0], pf[1]))
            return dict(res, witness=proj.witness_of(files, mode))
        seen = {}
        from .. import resolve
        bound = resolve.ModInfo("commands.ts", out.mods["commands.ts"]).imports
        for fname, lst in out.commands().items():
            if fname in bound:
                res["viol"].append(("C03 wrapper-takes-the-name-of-an-import", "the wrapper for %s is exported as %s, which commands.ts also imports from %s: the call inside it no longer reaches Tauri's invoke / the types module" % (
                    sorted(str(c["invoke_name"]) for c in lst), fname, bound[fname][0])))
            if len(lst) > 1:
                res["viol"].append(("C03 several-wrappers-exported-under-one-name", "%d wrappers are exported as %s (invoking %s): only one of them is callable" % (
                    len(lst), fname, sorted(str(c["invoke_name"]) for c in lst))))
            for c in lst:
                seen.setdefault(c["invoke_name"], []).append((fname, c))
        for name, info in truth.items():
            got = seen.get(name, [])
            cause = "attr=%s vis=%s async=%s params=%s" % (info["attr"], info["vis"], info["async"], info["layout"])
            if not got:
                extra = " unparsable-neighbour" if "unparsable-neighbour" in feats else ""
                extra += "".join(" " + f for f in sorted(feats) if f.startswith("ancestor-dir"))
                res["viol"].append(("C03 missing-wrapper %s%s" % (cause, extra), "command %s (%s, depth %d) has no wrapper calling invoke(%r)" % (name, info["file"], info["depth"], name)))
                continue
            if len(got) > 1:
                res["viol"].append(("C03 duplicate-wrapper %s" % cause, "command %s has %d wrappers" % (name, len(got))))
            fname, c = got[0]
            if c["invoke_calls"] != 1:
                res["viol"].append(("C03 wrapper-invoke-count", "wrapper %s contains %d invoke calls" % (fname, c["invoke_calls"])))
            if c["ret"] is None:
                res["viol"].append(("C03 return-annotation-missing", "wrapper %s has no return annotation" % fname))
            else:
                try:
                    s = sh.ts_shape(c["ret"])
                    if s[0] != "promise" or s[1] != info["ret"]:
                        res["viol"].append(("C03 return-annotation ret=%s" % sh.shape_skeleton(info["ret"]), "wrapper %s returns %s, expected Promise<%s>" % (fname, sh.show(s), sh.show(info["ret"]))))
                except sh.ShapeError as e:
                    res["viol"].append(("C03 return-annotation-unreadable", str(e)))
        for inv, lst in seen.items():
            if inv in truth:
                continue
            origin = decoys.get(inv, "unknown-origin") if inv is not None else "wrapper-without-string-literal-invoke"
            res["viol"].append(("C03 extra-wrapper origin=%s" % origin, "wrapper(s) %s invoke %r which is not a top-level command" % ([x[0] for x in lst], inv)))
        if not res["viol"] and idx % 4 == 0 and len({i["file"] for i in truth.values()}) > 1:
            # the project shrinks (the last command-bearing file is deleted) and the bindings are regenerated into the same directory:
            # the commands module must follow, whatever the directory held before
            import os
            src_name = (anc + "/app/src") if anc else "src"
            victim = sorted(i["file"] for i in truth.values() if "->" not in i["file"])[-1]
            vp = os.path.join(g.root, src_name, victim)
            if os.path.isfile(vp):
                os.unlink(vp)
                truth2 = {k: v for k, v in truth.items() if v["file"] != victim}
                res["truth_now"] = sorted(truth2)
                g2 = proj.generate(cli, None, mode=mode, root=g.root, src_name=src_name, tag="c03", force=True)
                res["regenerated"] = 1
                if g2.run.rc == 0 and "commands.ts" in g2.output.mods and not g2.output.mods["commands.ts"].errors:
                    inv2 = {}
                    for fname, lst in g2.output.commands().items():
                        for c in lst:
                            inv2.setdefault(c["invoke_name"], []).append(fname)
                    for inv in sorted(k for k in inv2 if k not in truth2 and k is not None):
                        res["viol"].append(("C03 extra-wrapper origin=%s after-regeneration-into-the-same-directory" % ("deleted-source-file" if inv in truth else decoys.get(inv, "unknown-origin")),
                                            "after %s was deleted and the bindings regenerated with --force, wrapper(s) %s still invoke %r" % (victim, inv2[inv], inv)))
                    for nm in sorted(truth2):
                        if nm not in inv2:
                            res["viol"].append(("C03 missing-wrapper after-regeneration-into-the-same-directory", "after %s was deleted and the bindings regenerated, command %s lost its wrapper" % (victim, nm)))
                elif truth2 and g2.run.rc == 0:
                    pf = common.parse_fault(g2.output, ("commands.ts",)) if "commands.ts" in g2.output.mods else ("missing", "commands.ts missing")
                    res["viol"].append(("C03 commands.ts-does-not-parse after-regeneration-into-the-same-directory " + pf[0], pf[1]))
        if not res["viol"] and idx % 5 == 1 and len(a) > 4 and not anc:
            # the build script's entry point, run twice on the unchanged project (cargo re-runs build scripts whenever it likes): after
            # each run every command has its wrapper
            import os
            from .. import tsmod
            proj.write_tauri_conf(g.root, "src", "out_build", mode, {})
            for k_ in range(2):
                rb, _ = proj.build_generate(a[4], g.root, hash_seed=seed % 211 + k_)
                res["build_script_runs"] = res.get("build_script_runs", 0) + 1
                if rb.timed_out or rb.rc != 0:
                    break
                ob = tsmod.Output(os.path.join(g.root, "out_build"))
                invb = set()
                if "commands.ts" in ob.mods and not ob.mods["commands.ts"].errors:
                    for fname, lst in ob.commands().items():
                        for c in lst:
                            invb.add(c["invoke_name"])
                lost = sorted(nm for nm in res.get("truth_now", truth) if nm not in invb)
                if lost:
                    res["viol"].append(("C03 missing-wrapper entry=build-script run=%d" % (k_ + 1), "after run %d of the build script on the unchanged project, commands %s have no wrapper (commands.ts %s)" % (
                        k_ + 1, lost[:5], "present" if "commands.ts" in ob.mods else "absent")))
                    break
        if not res["viol"] and idx % 7 == 3 and not anc and "truth_now" not in res:
            # the standard layout (sources in ./src-tauri), the flags spelled exactly like the built-in defaults, and a configuration
            # document that names another project: the flags say which project is scanned
            import os, shutil, json as _json
            from .. import tsmod
            shutil.copytree(os.path.join(g.root, "src"), os.path.join(g.root, "src-tauri"), symlinks=True)
            common.write_tree(os.path.join(g.root, "legacy"), [("old.rs", "#[tauri::command]\npub fn legacy_only_%d() -> i32 { 1 }\n" % idx)])
            _json.dump({"productName": "x", "plugins": {"typegen": {"projectPath": "./legacy", "outputPath": "./legacy_out", "validationLibrary": "zod" if mode == "none" else "none"}}},
                       open(os.path.join(g.root, "tauri.conf.json"), "w"))
            rd = common.run([cli, "tauri-typegen", "generate", "-p", "./src-tauri", "-o", "./src/generated", "-v", mode], cwd=g.root, hash_seed=seed % 211)
            res["default_spelled_flag_runs"] = 1
            if not rd.timed_out and rd.rc == 0:
                od = tsmod.Output(os.path.join(g.root, "src", "generated"))
                invd = set()
                if "commands.ts" in od.mods and not od.mods["commands.ts"].errors:
                    for fname, lst in od.commands().items():
                        for c in lst:
                            invd.add(c["invoke_name"])
                lost = sorted(nm for nm in truth if nm not in invd)
                extra = sorted(nm for nm in invd if nm is not None and nm.startswith("legacy_only_"))
                if lost or extra:
                    res["viol"].append(("C03 wrong-project-scanned flags-spelled-like-the-defaults", "generate -p ./src-tauri -o ./src/generated -v %s next to a tauri.conf.json naming ./legacy: commands %s have no wrapper in ./src/generated, wrappers for %s" % (
                        mode, lost[:4], extra)))
        if res["viol"]:
            res["witness"] = proj.witness_of(files, mode, extra={"expected_commands": sorted(truth), "decoys": decoys})
        return res
    finally:
        g.cleanup()


def run(tier):
    v = Verdict("C03", "exploration", tier)
    cli = common.build_cli()
    n = 400 if tier == "quick" else 40000
    base = common.seed() * 1000003
    drv = common.build_driver()
    jobs = [(cli, i, base + i, "none" if i % 2 == 0 else "zod", drv) for i in range(n)]
    res = common.pmap(run_case, jobs, chunksize=8)
    attrs = set()
    for (job, r) in zip(jobs, res):
        if "inconclusive" in r:
            v.inconclusive.append("watchdog")
            continue
        if "blocked" in r:
            v.blocked += 1
            v.case(job[2], nontrivial=False)
            continue
        v.case(job[2], nontrivial=r["n_decoys"] > 0 and r["files"] > 1,
               sample={"seed": job[2], "mode": job[3], "commands": r["n_expected"], "decoys": r["n_decoys"], "features": r["feats"], "max_depth": r["max_depth"]})
        v.count("commands_expected", r["n_expected"])
        v.count("decoys_planted", r["n_decoys"])
        for f in r["feats"]:
            v.count("projects_with_" + f)
        v.count("projects_with_depth>=2", 1 if r["max_depth"] >= 2 else 0)
        attrs.update(r["attrs"])
        for lay in r["layouts"]:
            v.count("commands_with_params=%s_mode=%s" % (lay, job[3]))
        for (sig, what) in r["viol"]:
            v.violation(sig, what, r.get("witness"))
    v.extra["attribute_spellings_covered"] = sorted(attrs)
    rule = ("a case is one generated directory layout (1-8 files at depth 0-4, commands with varied attribute spelling / visibility / async / "
            "neighbouring attributes / parameter layout (none, plain, channels only, mixed, injected), decoys of 9 kinds, target/ .git/ non-.rs and unparsable files); non-trivial = more than one file and at "
            "least one decoy; distinct by generator seed")
    return v.finish(rule, assumptions=["functions carrying the attribute inside impl blocks, traits, nested mods or fn bodies are not top-level items (DESIGN 4.2)"])
