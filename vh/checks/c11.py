"""C11 — validator attributes become exactly the declared Zod constraints.
Generated fields carry declared constraints (ground truth); the method chain of each field schema is parsed and the
multiset of (method, decoded number, decoded message) is compared exactly."""
import math
import random

from .. import common, proj, rustgen as rg, shape as sh
from ..common import Verdict

INT_BOUNDS = ["0", "1", "2", "10", "255", "1000", "65535", "4294967295", "9007199254740991", "18446744073709551615",
              # other spellings of integer literals
              "1_000", "10_000", "1_000_000", "255u8", "16usize", "0xFF", "0b1010", "0o17", "1_0"]
NUM_BOUNDS = ["0", "1", "-1", "-5", "100", "0.5", "-0.5", "3.14", "-273.15", "1e3", "1.5e-3", "-2e10", "1000000", "0.1", "99.999", "1e21", "2.5E2",
              "1_000_000", "-2_500", "255u8", "0.5f64", "-1.5f32", "0xFF", "1_000.5", "10i64", "1e3f64", "(5)", "-(5)"]
MSG_WORDS = ["must", "not", "be", "empty", "email", "url", "min", "max", "length", "range", "message", "value", "too", "long", "short", "between"]
MSG_SPECIAL = ["\\\").", "(inclusive). Please", ").min(", "})", "a rather long clause that makes the rendered chain exceed any sensible line width, twice over", ".max(5)", "é", "ü", "ñ", "日本", "😀", "→", "'", "\\\"", "\\\\", "(", ")", ",", "=", "<b>", "${x}", "`", ";", ":", "%", "\\n", "\\t", "  ", "#", "[", "]", "{", "}"]


def rand_message(rnd):
    if rnd.random() < 0.08:
        return ""            # a declared message that happens to be empty is still the declared message
    parts = []
    for _ in range(rnd.randint(1, 6)):
        parts.append(rnd.choice(MSG_WORDS) if rnd.random() < 0.6 else rnd.choice(MSG_SPECIAL))
    return " ".join(parts)


def rust_unescape(s):
    """value of a Rust string literal body using only the escapes this generator emits"""
    out = []
    i = 0
    while i < len(s):
        c = s[i]
        if c == "\\" and i + 1 < len(s):
            d = s[i + 1]
            out.append({"n": "\n", "t": "\t", "\\": "\\", '"': '"', "'": "'"}.get(d, d))
            i += 2
        else:
            out.append(c)
            i += 1
    return "".join(out)


FIELD_TYPES = [("String", "str", False), ("i32", "num", False), ("f64", "num", False), ("u8", "num", False), ("Vec<String>", "arr", False),
               ("Option<String>", "str", True), ("Option<i32>", "num", True), ("Vec<i32>", "arr", False), ("Option<Vec<String>>", "arr", True), ("u64", "num", False),
               # constraints belong to the field itself, never to an Option buried below another constructor
               ("Vec<Option<String>>", "arr", False), ("Vec<Option<i32>>", "arr", False), ("Option<Vec<Option<String>>>", "arr", True),
               # collections of project types (a struct, an enum), nested and fixed-size: the length is the collection's all the same
               ("Vec<Elem>", "arr", False), ("Option<Vec<Elem>>", "arr", True), ("Vec<Mode>", "arr", False), ("Vec<Vec<Elem>>", "arr", False), ("[Elem; 3]", "arr", False),
               ("Vec<Option<Elem>>", "arr", False)]


def gen_field(rnd, k):
    """-> (name, rust type, [attr lines], expected multiset[(method, value, message)], features)"""
    name = rnd.choice(["f%d" % k, "email_%d" % k, "url_%d" % k, "min_len_%d" % k, "range_%d" % k, "message_%d" % k]) if rnd.random() < 0.5 else "f%d" % k
    ty, base, opt = rnd.choice(FIELD_TYPES)
    feats = set()
    if rnd.random() < 0.2:
        return name, ty, [], [], {"no-validator"}
    validators = []
    expected = []
    if base in ("str", "arr") and rnd.random() < 0.7:
        mn = rnd.choice(INT_BOUNDS) if rnd.random() < 0.75 else None
        mx = rnd.choice(INT_BOUNDS) if (rnd.random() < 0.6 or mn is None) else None
        msg = rand_message(rnd) if rnd.random() < 0.5 else None
        args = []
        if mn is not None:
            args.append("min = %s" % mn)
        if mx is not None:
            args.append("max = %s" % mx)
        if msg is not None:
            args.append('message = "%s"' % msg)
            feats.add("length-message")
        if rnd.random() < 0.3:
            rnd.shuffle(args)
            feats.add("shuffled-args")
        validators.append("length(%s)" % ", ".join(args))
        m = rust_unescape(msg) if msg is not None else None
        if mn is not None:
            expected.append(("min", lit_value(mn), m))
        if mx is not None:
            expected.append(("max", lit_value(mx), m))
        feats.add("length-on-" + base + ("-option" if opt else ""))
    if base == "num" and rnd.random() < 0.85:
        mn = rnd.choice(NUM_BOUNDS) if rnd.random() < 0.75 else None
        mx = rnd.choice(NUM_BOUNDS) if (rnd.random() < 0.6 or mn is None) else None
        msg = rand_message(rnd) if rnd.random() < 0.5 else None
        args = []
        if mn is not None:
            args.append("min = %s" % mn)
            feats.add(bound_class(mn))
        if mx is not None:
            args.append("max = %s" % mx)
            feats.add(bound_class(mx))
        if msg is not None:
            args.append('message = "%s"' % msg)
            feats.add("range-message")
        if rnd.random() < 0.3:
            rnd.shuffle(args)
            feats.add("shuffled-args")
        validators.append("range(%s)" % ", ".join(args))
        m = rust_unescape(msg) if msg is not None else None
        if mn is not None:
            expected.append(("min", lit_value(mn), m))
        if mx is not None:
            expected.append(("max", lit_value(mx), m))
        feats.add("range" + ("-option" if opt else ""))
    if base == "str":
        r = rnd.random()
        if r < 0.25:
            if rnd.random() < 0.25:
                msg = rand_message(rnd)
                validators.append('email(message = "%s")' % msg)
                expected.append(("email", None, rust_unescape(msg)))
                feats.add("email-message")
            else:
                validators.append("email")
                expected.append(("email", None, None))
                feats.add("email")
        elif r < 0.45:
            if rnd.random() < 0.25:
                msg = rand_message(rnd)
                validators.append('url(message = "%s")' % msg)
                expected.append(("url", None, rust_unescape(msg)))
                feats.add("url-message")
            else:
                validators.append("url")
                expected.append(("url", None, None))
                feats.add("url")
        elif r < 0.55:
            # both format validators on one field, each with or without a message of its own
            pair = []
            for v_ in ("email", "url"):
                if rnd.random() < 0.4:
                    msg = rand_message(rnd)
                    pair.append(('%s(message = "%s")' % (v_, msg), (v_, None, rust_unescape(msg))))
                else:
                    pair.append((v_, (v_, None, None)))
            if rnd.random() < 0.5:
                pair.reverse()
            for (text_, exp_) in pair:
                validators.append(text_)
                expected.append(exp_)
            feats.add("email+url" + ("-messages" if any(e_[1][2] is not None for e_ in pair) else ""))
    if not validators:
        return name, ty, [], [], {"no-validator"}
    # validators of the validator crate that the statement does not translate, mixed in before / between / after the translated ones:
    # they add nothing themselves and must not cost a declared constraint
    if rnd.random() < 0.35:
        other = rnd.choice(['custom(function = "check_it")', 'custom(function = "check_it", message = "custom says no, (really)")', "regex(path = *NAME_RE)",
                            'must_match(other = "confirm")', 'contains(pattern = "@")', 'does_not_contain(pattern = "admin")', "required", "nested", "credit_card",
                            "non_control_character", 'custom(function = "a::b::check", use_context)', "ip", 'regex(path = *RE, message = "bad, \\"format\\"")'])
        validators.insert(rnd.randint(0, len(validators)), other)
        feats.add("untranslated-validator-" + ("first" if validators[0] == other else "last" if validators[-1] == other else "between"))
    if len(validators) > 1 and rnd.random() < 0.5:
        attrs = ["#[validate(%s)]" % v for v in validators]
        feats.add("separate-attributes")
    else:
        attrs = ["#[validate(%s)]" % ", ".join(validators)]
        if len(validators) > 1:
            feats.add("several-validators-in-one-attribute")
    if rnd.random() < 0.3:
        attrs.insert(rnd.randint(0, len(attrs)), '#[serde(rename = "%s_w")]' % name)
    return name, ty, attrs, expected, feats


def lit_value(b):
    """value of a Rust numeric literal spelling"""
    t = b.replace("_", "").replace("(", "").replace(")", "")
    neg = t.startswith("-")
    t = t.lstrip("-")
    for suf in ("usize", "isize", "u8", "u16", "u32", "u64", "u128", "i8", "i16", "i32", "i64", "i128", "f32", "f64"):
        if t.endswith(suf) and not t.lower().startswith("0x"):
            t = t[: -len(suf)]
            break
    if t.lower().startswith(("0x", "0b", "0o")):
        v = float(int(t, 0))
    else:
        v = float(t)
    return -v if neg else v


def bound_class(b):
    if "_" in b:
        return "bound-underscore-separated"
    if b.lower().startswith(("0x", "0b", "0o")):
        return "bound-radix-prefix"
    if any(b.endswith(s) for s in ("u8", "usize", "f64", "f32", "i64")):
        return "bound-type-suffix"
    if "(" in b:
        return "bound-parenthesised"
    if "e" in b.lower():
        return "bound-exponent"
    if b.startswith("-") and "." in b:
        return "bound-negative-decimal"
    if b.startswith("-"):
        return "bound-negative"
    if "." in b:
        return "bound-decimal"
    if len(b) > 9:
        return "bound-large"
    return "bound-int"


def gen_project(rnd, idx):
    structs = []
    truth = {}
    for s in range(rnd.randint(1, 3)):
        sname = "V%d_%d" % (idx, s)
        fields = []
        used = set()
        for k in range(rnd.randint(2, 7)):
            name, ty, attrs, expected, feats = gen_field(rnd, k)
            if name in used:
                name = "g%d" % k
            used.add(name)
            fields.append((name, ty, attrs))
            wire = name
            for a in attrs:
                if a.startswith("#[serde(rename"):
                    wire = name + "_w"
            truth[(sname, wire)] = (expected, feats, ty, attrs)
        structs.append(rg.struct_src(sname, fields, derives="Serialize, Deserialize, Validate"))
    cmds = "".join(rg.command_src("save_%s" % s.lower(), [("v", s)], "i32") for s in sorted({k[0] for k in truth}))
    elems = rg.struct_src("Elem", [("id", "u32")]) + rg.enum_src("Mode", [("Fast",), ("Slow",)])
    return [("lib.rs", rg.PRELUDE + "use validator::Validate;\n\n" + elems + "".join(structs) + cmds)], truth


def decode_num(e):
    if e[0] == "num":
        return e[1]
    if e[0] == "unary" and e[1] in ("-", "+") and e[2][0] == "num":
        return -e[2][1] if e[1] == "-" else e[2][1]
    return None


def observed_constraints(const_init):
    """-> {key: (list[(method, value, message)], inner_constraints_count)}"""
    if const_init[0] != "call" or not const_init[2] or const_init[2][0][0] != "object":
        raise sh.ShapeError("schema is not z.object({...})")
    res = {}
    for pr in const_init[2][0][1]:
        if pr[0] != "prop":
            continue
        cons = []
        sh.zod_shape(pr[3], cons, "")
        top = []
        nested = 0
        for (path, meth, args) in cons:
            val = None
            msg = None
            rest = list(args)
            if meth in ("min", "max", "length", "gt", "gte", "lt", "lte") and rest:
                val = decode_num(rest[0])
                rest = rest[1:]
            if rest:
                a = rest[0]
                if a[0] == "object":
                    for p2 in a[1]:
                        if p2[0] == "prop" and p2[1] in ("message", "error") and p2[3][0] == "str":
                            msg = p2[3][1]
                elif a[0] == "str":
                    msg = a[1]
            if path == "":
                top.append((meth, val, msg))
            else:
                nested += 1
        res[pr[1]] = (top, nested)
    return res


def run_case(a):
    cli, idx, seed = a
    rnd = random.Random(seed)
    files, truth = gen_project(rnd, idx)
    g = proj.generate(cli, files, mode="zod", tag="c11")
    try:
        if g.run.timed_out:
            return {"inconclusive": "watchdog"}
        if g.run.abnormal():
            return {"blocked": "crash", "n": len(truth)}
        if g.run.rc != 0:
            return {"blocked": "rc=%s" % g.run.rc, "n": len(truth)}
        out = g.output
        consts = out.consts()
        viol = []
        nfields = 0
        feats_seen = set()
        for sname in sorted({k[0] for k in truth}):
            c = consts.get(sname + "Schema")
            if c is None or c["init"] is None:
                for (s2, key), (expected, feats, ty, attrs) in truth.items():
                    if s2 == sname:
                        nfields += 1
                viol.append(("C11 schema-missing-or-unparsable", "schema %sSchema is missing or does not parse" % sname, None))
                continue
            try:
                obs = observed_constraints(c["init"])
            except sh.ShapeError as e:
                viol.append(("C11 schema-unreadable", "%sSchema: %s" % (sname, e), None))
                continue
            for (s2, key), (expected, feats, ty, attrs) in truth.items():
                if s2 != sname:
                    continue
                nfields += 1
                feats_seen |= feats
                if key not in obs:
                    viol.append(("C11 field-missing", "%s.%s missing from schema" % (sname, key), None))
                    continue
                got, nested = obs[key]
                exp = sorted(expected, key=repr)
                gs = sorted(got, key=repr)
                if nested:
                    viol.append(("C11 constraint-on-nested-position", "%s.%s (%s %s): %d constraint call(s) below the top-level chain" % (sname, key, ty, attrs, nested), None))
                if same(exp, gs):
                    continue
                if any(f.startswith("email+url") for f in feats) and shared_slot_model(exp, gs):
                    viol.append(("C11 email-and-url-share-one-message-slot", "%s.%s: `%s` %s declares %s but the schema carries %s" % (sname, key, ty, " ".join(attrs), exp, gs), None))
                    continue
                viol.append((classify(exp, gs, feats, ty), "%s.%s: `%s` %s declares %s but the schema carries %s" % (sname, key, ty, " ".join(attrs), exp, gs), None))
        r = {"viol": [(s, w) for (s, w, _) in viol], "n": nfields, "feats": sorted(feats_seen)}
        if viol:
            r["witness"] = proj.witness_of(files, "zod")
        return r
    finally:
        g.cleanup()


def shared_slot_model(exp, got):
    """recorded defect: ValidatorAttributes has ONE message slot (custom_message) for email and url together, so with both validators
    on a field either's message is printed on both. True iff `got` is exactly `exp` with that substitution"""
    msgs = {m for (k, _v, m) in exp if k in ("email", "url") and m is not None}
    for m in msgs:
        model = sorted([(k, v, m if k in ("email", "url") else mm) for (k, v, mm) in exp], key=repr)
        if same(model, got):
            return True
    return False


def same(exp, got):
    if len(exp) != len(got):
        return False
    for (a, b) in zip(exp, got):
        if a[0] != b[0] or a[2] != b[2]:
            return False
        if a[1] is None or b[1] is None:
            if a[1] != b[1]:
                return False
        elif float(a[1]) != float(b[1]):
            return False
    return True


def classify(exp, got, feats, ty):
    """cause class of a constraint mismatch"""
    em = {(m, None if v is None else float(v)) for (m, v, _) in exp}
    gm = {(m, None if v is None else float(v)) for (m, v, _) in got}
    missing = em - gm
    extra = gm - em
    bclass = sorted(f for f in feats if f.startswith("bound-"))
    if missing or extra:
        kinds = []
        for (m, val) in sorted(missing, key=repr):
            kinds.append("missing-%s%s" % (m, "" if val is None else "(" + num_class(val) + ")"))
        for (m, val) in sorted(extra, key=repr):
            kinds.append("extra-%s" % m)
        return "C11 constraints %s on %s" % (",".join(sorted(set(kinds))), ty.replace("Option<", "Opt<"))
    # same calls, message differs
    kinds = set()
    emsg = {(m, msg) for (m, _, msg) in exp}
    gmsg = {(m, msg) for (m, _, msg) in got}
    for (m, msg) in emsg - gmsg:
        g2 = [x for (mm, x) in gmsg if mm == m]
        if g2 and g2[0] is None:
            kinds.add("message-dropped-on-%s" % m)
        elif msg is None:
            kinds.add("message-invented-on-%s" % m)
        else:
            kinds.add("message-altered(%s)" % msg_class(msg, g2[0] if g2 else None))
    return "C11 %s" % ",".join(sorted(kinds))


def num_class(v):
    if v < 0 and v != math.floor(v):
        return "negative-decimal"
    if v < 0:
        return "negative"
    if v != math.floor(v):
        return "decimal"
    if abs(v) >= 1e15:
        return "large"
    return "int"


def msg_class(want, got):
    cls = []
    if any(ord(c) > 127 for c in want):
        cls.append("non-ascii")
    for ch, nm in (('"', "dquote"), ("'", "squote"), ("\\", "backslash"), ("(", "paren"), (")", "paren"), (",", "comma"), ("\n", "newline"), ("\t", "tab")):
        if ch in want and nm not in cls:
            cls.append(nm)
    return "+".join(cls) or "plain"


def run(tier):
    v = Verdict("C11", "exploration", tier)
    cli = common.build_cli()
    n = 350 if tier == "quick" else 40000
    base = common.seed() * 11000027
    jobs = [(cli, i, base + i) for i in range(n)]
    res = common.pmap(run_case, jobs, chunksize=8)
    feats = set()
    for (job, r) in zip(jobs, res):
        if "inconclusive" in r:
            v.inconclusive.append("watchdog")
            continue
        if "blocked" in r:
            v.blocked += 1
            v.case(job[2], nontrivial=False)
            v.count("blocked:" + r["blocked"])
            continue
        v.case(job[2], nontrivial=True, sample={"seed": job[2], "fields": r["n"], "features": r["feats"][:8]})
        v.count("fields_compared", r["n"])
        feats.update(r["feats"])
        for (sig, what) in r["viol"]:
            v.violation(sig, what, r.get("witness"))
    v.extra["features_covered"] = sorted(feats)
    rule = ("a case is one generated project of 1-3 validated structs with 2-7 fields each (length/range/email/url in all compatible combinations on "
            "String, numeric, Vec and Option-wrapped fields; bounds over ints, negatives, decimals, exponents, large values; messages over Unicode, "
            "quotes, backslashes, parentheses, commas, validator keywords); all non-trivial; distinct by generator seed; counter fields_compared")
    return v.finish(rule, assumptions=["inputs that make the tool panic are C15's business and are counted as blocked here",
                                       "numbers compared as decoded f64; messages compared as decoded JS string literals vs the Rust literal's value"])
