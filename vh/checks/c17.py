"""C17 — a failed run is never remembered as up to date.
Fault enumeration: target file x fault kind x phase x mode x path; each scenario = (good run) -> [edit] -> faulty run ->
[revert] -> obstacle removed -> non-forced recovery run(s); the recovered output directory must equal a fresh forced
generation of the then-current sources. Faults are injected into the real processes with strace (openat EACCES,
write ENOSPC, SIGKILL at open), with filesystem obstacles (directory in place of the file, parent is a file) or with a file-size
limit on the process (writes cut short)."""
import json
import os
import random
import shutil

from .. import common, fsmon, proj, rustgen as rg
from ..common import Verdict
from . import c08

TARGETS = ["types.ts", "commands.ts", "events.ts", "index.ts", ".typecache", "dependency-graph.txt", "dependency-graph.dot", "<output-dir>"]
KINDS = ["open-EACCES", "write-ENOSPC", "open-SIGKILL", "EISDIR", "ENOTDIR", "fsize-limit-1KiB", "fsize-limit-2KiB", "fsize-limit-below-largest", "file-in-its-place", "dangling-symlink"]
PHASES = ["first-run", "after-edit", "edit-then-revert"]


def scenario(a):
    cli, drv, target, kind, phase, mode, path, seed = a[:8]
    if kind in ("ENOTDIR", "file-in-its-place") and target != "<output-dir>":
        return {"skip": "ENOTDIR / file-in-its-place only apply to the output directory"}
    if target == "<output-dir>" and kind == "dangling-symlink":
        return {"skip": "n/a"}
    if target == "<output-dir>" and kind not in ("ENOTDIR", "open-EACCES", "file-in-its-place"):
        return {"skip": "n/a"}
    if kind.startswith("fsize-limit") and target != "types.ts":
        return {"skip": "the file-size limit applies to the whole process; run once per scenario"}
    if fsmon.STRACE is None and kind in ("open-EACCES", "write-ENOSPC", "open-SIGKILL"):
        return {"skip": "strace unavailable"}
    s = dict(c08.BASE)
    # thorough tier: start from a randomly edited project instead of the fixed base
    if len(a) > 8 and a[8]:
        rnd = random.Random(seed)
        emap = {e[0]: e[1] for e in c08.EDITS}
        for nm in rnd.sample([e[0] for e in c08.EDITS if not isinstance(e[1], str) and e[0] not in ("mode", "visualize_deps", "remove-all-commands/restore")], rnd.randint(2, 8)):
            emap[nm](s)
    s["mode"] = mode
    s["visualize_deps"] = not kind.endswith("below-largest")      # (the graph listing would be the largest file; it is written by other code)
    root = common.scratch("c17")
    viol = []
    info = {"injected": False, "faulty_rc": None, "recovery_rc": []}
    try:
        # every third CLI scenario names its output directory with -o while the configuration file names another one: the directory
        # that counts (for the files and for the record) is the flag's
        via_o = path == "cli" and seed % 3 == 0 and kind != "ENOTDIR"

        def ws():
            r_ = c08.write_state(root, s, path, absolute=True)
            if via_o:
                cp_ = os.path.join(root, "cfg.json")
                c__ = json.load(open(cp_))
                c__["output_path"] = os.path.join(root, "configured_elsewhere")
                json.dump(c__, open(cp_, "w"))
            return r_
        src, out = ws()

        def argv(force=False):
            if path == "cli":
                return [cli, "tauri-typegen", "generate", "-c", os.path.join(root, "cfg.json")] + (["-o", out] if via_o else []) + (["--force"] if force else [])
            return [drv, "build"]

        if phase != "first-run":
            r0 = common.run(argv(), cwd=root, hash_seed=seed % 97)
            if r0.rc != 0:
                return {"blocked": "initial good run failed rc=%s %s" % (r0.rc, (r0.err + r0.out)[-200:])}
            sA = dict(s)
            # an edit that changes the output of every file and the hash
            c08_edit = dict(s)
            c08_edit.update(cmd_extra=True, field_extra=True, event_extra=True, variant_extra=True)
            s = c08_edit
            ws()
        # ---- faulty run; every second scenario makes it a FORCED run (--force / force: true): a forced run that fails must not leave
        #      an older cache record standing either
        forced_fault = seed % 2 == 1 and kind != "ENOTDIR"
        if forced_fault:
            if path == "cli":
                plain_argv = argv
                argv = lambda force=False, _a=plain_argv: _a(True)      # noqa: E731
            else:
                cfgp = os.path.join(root, "typegen.json")
                c_ = json.load(open(cfgp))
                c_["force"] = True
                json.dump(c_, open(cfgp, "w"))
        tpath = out if target == "<output-dir>" else os.path.join(out, target)
        obstacle = None
        if kind == "dangling-symlink":
            # the file's path is taken by a symbolic link whose target directory does not exist: opening it for writing fails with ENOENT
            if os.path.lexists(tpath):
                os.unlink(tpath)
            os.makedirs(os.path.dirname(tpath), exist_ok=True)
            os.symlink(os.path.join(root, "no-such-dir", os.path.basename(tpath)), tpath)
            obstacle = ("link", tpath)
            rf = common.run(argv(), cwd=root, hash_seed=seed % 97 + 1)
            info["injected"] = True
        elif kind == "EISDIR":
            if os.path.isfile(tpath):
                os.unlink(tpath)
            os.makedirs(tpath, exist_ok=True)
            obstacle = ("dir", tpath)
            rf = common.run(argv(), cwd=root, hash_seed=seed % 97 + 1)
            info["injected"] = True
        elif kind == "file-in-its-place":
            # the output path itself names a regular file (the directory of an earlier run replaced by a file)
            if os.path.isdir(out):
                shutil.rmtree(out)
            open(out, "w").write("i am a file where the output directory should be")
            obstacle = ("file", out)
            rf = common.run(argv(), cwd=root, hash_seed=seed % 97 + 1)
            info["injected"] = True
        elif kind == "ENOTDIR":
            # the output path's parent is a regular file
            if os.path.isdir(out):
                shutil.rmtree(out)
            blocker = os.path.join(root, "blocker")
            open(blocker, "w").write("i am a file")
            # re-point the configuration at blocker/gen
            s2cfg = c08.config_of(s, src, os.path.join(blocker, "gen"))
            json.dump(s2cfg, open(os.path.join(root, "cfg.json" if path == "cli" else "typegen.json"), "w"))
            rf = common.run(argv(), cwd=root, hash_seed=seed % 97 + 1)
            info["injected"] = True
            obstacle = ("notdir", blocker)
        elif kind.startswith("fsize-limit"):
            # RLIMIT_FSIZE with SIGXFSZ ignored: a write that crosses the limit is cut short, the next one fails with EFBIG
            blocks = 1 if kind.endswith("1KiB") else 2
            if kind.endswith("below-largest"):
                # a limit that only the largest output file exceeds (every other write of the run fits): read the sizes off a
                # reference generation of the state that is about to be generated
                _rr, refo = c08.reference(cli, root, s, seed % 97 + 7)
                sizes_ = sorted((len(t_.encode("utf-8")) for f_, t_ in refo.items() if f_ != ".typecache"), reverse=True)
                if len(sizes_) < 2 or sizes_[0] - sizes_[1] < 16:
                    return {"not_hit": True, "info": info}
                limit_ = (sizes_[0] + sizes_[1]) // 2
                rf = common.run(argv(), cwd=root, hash_seed=seed % 97 + 1, fsize_limit=limit_)
                sizes = {f: os.path.getsize(os.path.join(out, f)) for f in os.listdir(out)} if os.path.isdir(out) else {}
                info["injected"] = rf.rc != 0 or any(sz == limit_ for sz in sizes.values())
            else:
                rf = common.run(["bash", "-c", 'trap "" XFSZ; ulimit -f %d; exec "$@"' % blocks, "bash"] + argv(), cwd=root, hash_seed=seed % 97 + 1)
                sizes = {f: os.path.getsize(os.path.join(out, f)) for f in os.listdir(out)} if os.path.isdir(out) else {}
                info["injected"] = rf.rc != 0 or any(sz == blocks * 1024 for sz in sizes.values())
        else:
            inj = {"open-EACCES": "openat:error=EACCES", "write-ENOSPC": "write:error=ENOSPC", "open-SIGKILL": "openat:signal=SIGKILL"}[kind]
            if target == "<output-dir>":
                # make the directory itself unopenable for creation of files: inject on the directory path for mkdir/openat of children is not
                # expressible with -P; use a read-only obstacle instead
                return {"skip": "n/a"}
            rf, ev = fsmon.run_traced(argv(), cwd=root, hash_seed=seed % 97 + 1, inject=inj, inject_path=tpath)
            info["injected"] = any(e["injected"] for e in (ev or [])) or (rf.rc is not None and rf.rc < 0) or rf.rc == 137
        info["faulty_rc"] = rf.rc
        if forced_fault:
            # the runs that follow are plain, non-forced runs again
            if path == "cli":
                argv = plain_argv
            elif kind != "ENOTDIR":
                ws()
        if rf.timed_out:
            return {"inconclusive": "watchdog"}
        if rf.panicked:
            viol.append(("C17 faulty-run-panics target=%s kind=%s" % (target, kind), "rc=%s %s" % (rf.rc, rf.err[-200:])))
        if not info["injected"]:
            return {"not_hit": True, "info": info}
        # ---- did the faulty run claim success without the fresh state?
        if phase == "edit-then-revert":
            s = sA
            ws()
        # remove the obstacle
        if obstacle and obstacle[0] == "dir":
            shutil.rmtree(obstacle[1], ignore_errors=True)
        if obstacle and obstacle[0] == "link":
            if os.path.islink(obstacle[1]):
                os.unlink(obstacle[1])
        if obstacle and obstacle[0] == "file":
            if os.path.isfile(obstacle[1]):
                os.unlink(obstacle[1])
        if obstacle and obstacle[0] == "notdir":
            os.unlink(obstacle[1])
            ws()
        if rf.rc == 0 and phase != "edit-then-revert":
            rr, ref = c08.reference(cli, root, s, seed % 97 + 2)
            now = common.read_outputs(out if kind != "ENOTDIR" else out)
            bad = c08.compare(now, ref)
            if bad and not (target == ".typecache"):
                viol.append(("C17 faulty-run-exits-0-with-stale-output target=%s kind=%s path=%s" % (target, kind, path),
                             "faulty run (fault %s on %s) exited 0 but %s" % (kind, target, bad)))
            elif bad and target == ".typecache":
                viol.append(("C17 typecache-fault-leaves-stale-bindings kind=%s path=%s" % (kind, path), "exit 0 after a fault on .typecache but %s" % bad))
        # ---- recovery: one or two non-forced runs
        for k in range(2):
            rr = common.run(argv(), cwd=root, hash_seed=seed % 97 + 3 + k)
            info["recovery_rc"].append(rr.rc)
            if rr.timed_out:
                return {"inconclusive": "watchdog"}
            if rr.rc != 0:
                viol.append(("C17 recovery-run-fails target=%s kind=%s phase=%s path=%s" % (target, kind, phase, path), "recovery run %d exits %s: %s" % (k, rr.rc, (rr.err + rr.out)[-200:])))
                break
            rref, ref = c08.reference(cli, root, s, seed % 97 + 5)
            now = common.read_outputs(out)
            bad = c08.compare(now, ref)
            if bad:
                viol.append(("C17 recovery-leaves-stale-output target=%s kind=%s phase=%s path=%s" % (target, kind, phase, path),
                             "after the obstacle was removed, non-forced run %d reported success (last line %r) but %s w.r.t. a fresh generation" % (
                                 k, rr.out.strip().splitlines()[-1][:60] if rr.out.strip() else "", bad)))
                break
        wit = {"target": target, "kind": kind, "phase": phase, "mode": mode, "path": path, "hash_seed": seed % 97, "faulty_run_forced": forced_fault, "output_directory_named_by_flag": via_o, "files": [[p, t] for p, t in c08.render(s)]}
        if forced_fault:
            viol = [(a2 + " faulty-run-forced", b2) for (a2, b2) in viol]
            info["forced"] = True
        return {"viol": [(a2, b2, wit) for (a2, b2) in viol], "info": info}
    finally:
        common.rmtree(root)


def run(tier):
    v = Verdict("C17", "fault_enumeration", tier)
    cli = common.build_cli()
    drv = common.build_driver()
    jobs = []
    sd = common.seed() * 17000023
    paths = ("cli",) if tier == "quick" else ("cli", "build")
    for target in TARGETS:
        for kind in KINDS:
            for phase in PHASES:
                for mode in ("none", "zod"):
                    for path in paths:
                        jobs.append((cli, drv, target, kind, phase, mode, path, sd + len(jobs)))
    if tier == "thorough":
        for rep in range(3):
            for target in TARGETS:
                for kind in KINDS:
                    for phase in PHASES:
                        jobs.append((cli, drv, target, kind, phase, "zod" if (rep + len(jobs)) % 2 else "none", "cli" if len(jobs) % 3 else "build", sd + len(jobs), True))
    if tier == "quick":
        # a slice of the build-script half so that both entry points are always exercised
        for target in TARGETS:
            for kind in ("open-EACCES", "EISDIR", "open-SIGKILL"):
                jobs.append((cli, drv, target, kind, "edit-then-revert", "zod" if len(jobs) % 2 else "none", "build", sd + len(jobs)))
            # ... and whether the build script's entry point reports the failure at all (first run / run after an edit)
            for k, kind in enumerate(("EISDIR", "write-ENOSPC", "dangling-symlink", "file-in-its-place", "ENOTDIR")):
                jobs.append((cli, drv, target, kind, PHASES[(k + len(target)) % 2], "none" if len(jobs) % 2 else "zod", "build", sd + len(jobs)))
    res = common.pmap(scenario, jobs, chunksize=2)
    hit = requested = 0
    exits = {}
    for (job, r) in zip(jobs, res):
        key = job[2:7] + ((job[7],) if len(job) > 8 else ())
        if "skip" in r:
            continue
        requested += 1
        if "inconclusive" in r:
            v.inconclusive.append(r["inconclusive"])
            continue
        if "blocked" in r:
            v.blocked += 1
            v.case(key, nontrivial=False)
            v.count("blocked:" + r["blocked"][:60])
            continue
        if r.get("not_hit"):
            v.count("fault_points_requested_but_not_reached")
            v.case(key, nontrivial=False)
            continue
        hit += 1
        if r["info"].get("forced"):
            v.count("scenarios_with_a_forced_faulty_run")
        exits[str(r["info"]["faulty_rc"])] = exits.get(str(r["info"]["faulty_rc"]), 0) + 1
        v.case(key, nontrivial=True, sample={"target": job[2], "fault": job[3], "phase": job[4], "mode": job[5], "path": job[6], "faulty_exit": r["info"]["faulty_rc"], "recovery_exits": r["info"]["recovery_rc"]})
        for (sig, what, wit) in r["viol"]:
            v.violation(sig, what, wit)
    v.extra["fault_points_requested"] = requested
    v.extra["fault_points_actually_hit"] = hit
    v.extra["faulty_run_exit_codes"] = exits
    v.extra["strace_available"] = fsmon.STRACE is not None
    rule = ("a case is one scenario (target file x fault kind x phase x mode x path); non-trivial = the fault was actually hit (INJECTED marker in the "
            "strace log, death by signal, or a filesystem obstacle in place); a fault that cannot occur (e.g. events.ts when it is not written first) "
            "is counted as requested-but-not-reached; distinct by the tuple")
    return v.finish(rule, assumptions=["a fault on .typecache itself may end in exit 0 with a warning provided the bindings are fresh (DESIGN 4.2)",
                                       "strace -P <path> -e inject=... injects exactly on syscalls touching that path"], exhaustive=(tier == "thorough"))
