"""C01 — every generated file is syntactically valid TypeScript.
Monitor P: every file the real CLI writes goes through the strict TS/Zod parser (vh/tsparse.py); string
literals that carry user text are additionally round-tripped (decoded literal == source string).
Workload: atomic probes = name class x position x mode (one minimal project each), the C05 type-expression
batches (ill-nested types are syntax faults too), and seeded compound projects mixing several probes."""
import random

from .. import common, proj, rustgen as rg, tsparse
from ..common import Verdict
from . import c05

RESERVED_RUST_OK = ["delete", "new", "function", "class", "default", "void", "switch", "case", "export", "import", "this",
                    "null", "with", "var", "catch", "finally", "throw", "instanceof", "debugger", "interface", "package",
                    "private", "public", "protected", "implements", "arguments", "eval", "extends"]

# name classes: (class, [concrete strings])
RENAME_STRINGS = [
    ("plain", ["userId", "x"]),
    ("kebab", ["user-id", "a-b-c"]),
    ("screaming-kebab", ["USER-ID"]),
    ("space", ["user id", " lead"]),
    ("dot", ["user.id"]),
    ("single-quote", ["it's"]),
    ("double-quote", ['say "hi"']),
    ("backslash", ["back\\slash"]),
    ("non-ascii-letters", ["naïve", "日本語"]),
    ("non-ascii-symbol", ["a→b", "😀"]),
    ("digit-start", ["1st", "404"]),
    ("digits-only", ["007", "12345678901234567890123", "0", "00", "1e3"]),
    ("reserved-word", ["delete", "class", "default"]),
    ("dollar", ["$ref"]),
    ("at-sign", ["@type"]),
    ("colon-slash", ["ns:key/x"]),
    ("empty", [""]),
]
RENAME_ALL = ["lowercase", "UPPERCASE", "PascalCase", "camelCase", "snake_case", "SCREAMING_SNAKE_CASE", "kebab-case", "SCREAMING-KEBAB-CASE"]
EVENT_NAMES = [
    ("plain", ["progress", "downloadDone"]),
    ("kebab", ["download-started", "a-b-c"]),
    ("snake", ["user_login"]),
    ("colon", ["user:login", "app:window:close"]),
    ("slash", ["fs/changed", "a/b/c"]),
    ("colon-slash-mix", ["plugin:fs/watch-event_2"]),
    ("digit-start", ["9lives", "2fa-required"]),
    ("upper", ["READY", "App-Ready"]),
    ("leading-sep", ["-lead", "_lead", ":lead", "/lead"]),
    ("only-seps", ["-", "__", ":/"]),
    ("reserved-after-derivation", ["delete", "class"]),
    # characters Tauri itself rejects at run time, but which a string literal can hold and the tool accepts
    ("quote", ["it's", 'say "hi"', "'", '"']),
    ("backslash", ["back\\slash", "trailing\\", "\\n-not-a-newline"]),
    ("comment-terminator", ["close*/comment", "/*open", "*/"]),
    ("whitespace-and-control", ["a b", "new\nline", "tab\tsep", "cr\rlf"]),
    ("dot-and-punctuation", ["a.b", "a,b;c", "x=y?z"]),
    ("template-chars", ["tmpl${x}`", "`"]),
    ("non-ascii", ["émoji✓", "データ", "a\u2028b"]),
    ("empty", [""]),
]
MESSAGES = [
    ("plain", ["must not be empty"]),
    ("double-quote", ['say "hi"']),
    ("single-quote", ["it's bad"]),
    ("backslash", ["path C:\\\\temp"]),
    ("paren-comma", ["a (b), c"]),
    ("template-chars", ["${x} `tick`"]),
    ("html", ["</script><b>"]),
    ("escape-n", ["line1\\nline2"]),
    ("keywords", ["email url min max length range message"]),
    # non-ASCII text from every part of the code space (one- to four-byte UTF-8, below and above U+1000, beyond the BMP, combining
    # marks, right-to-left, the separators U+2028/U+2029 and a BOM in mid-text)
    ("latin-1", ["Größe: bitte höchstens 20 Zeichen", "L’adresse n’est pas valide !"]),
    ("greek-cyrillic", ["Η τιμή δεν είναι έγκυρη", "Неверное значение, повторите"]),
    ("rtl", ["ערך לא חוקי", "قيمة غير صالحة"]),
    ("indic-cjk", ["मान्य नहीं है", "値が不正です", "값이 올바르지 않습니다"]),
    ("astral-and-marks", ["too short 😀👍🏽", "é å zero‍width", "line sep para", "bom﻿inside"]),
]


def rs_str(s):
    out = s.replace("\\", "\\\\").replace('"', '\\"').replace("\n", "\\n").replace("\r", "\\r").replace("\t", "\\t").replace("\u2028", "\\u{2028}")
    return '"' + out + '"'


def base_cmd(extra=""):
    return rg.command_src("get_item", [("id", "i32")], "Item") + extra


def probe_projects():
    """-> list of dict(position, cls, text, files, expect_literals=[...])"""
    P = []

    def add(position, cls, text, src, literals=(), config=None):
        P.append({"position": position, "cls": cls, "text": text, "files": [("lib.rs", rg.PRELUDE + src)], "literals": list(literals), "config": config})

    # --- naming-case settings
    for ra in RENAME_ALL:
        src = (rg.struct_src("Item", [("user_id", "i32"), ("http_status2", "String")]) + "use tauri::ipc::Channel;\n" +
               rg.command_src("get_item", [("item_id", "i32"), ("on_event", "Channel<Item>"), ("opt_flag", "Option<bool>")], "Item") +
               rg.command_src("only_channel", [("on_progress_update", "Channel<i32>")], "i32"))
        add("default_parameter_case", ra, ra, src, config={"default_parameter_case": ra})
        multi = (rg.struct_src("Item", [("user_id", "i32")]) + "use tauri::ipc::Channel;\n" +
                 rg.command_src("process_data", [("job_id", "i32"), ("on_progress", "Channel<i32>"), ("on_log_line", "Channel<String>")], "Item") +
                 rg.command_src("run_process", [("cmd_line", "String"), ("dry_run", "Option<bool>"), ("on_stdout", "Channel<String>"), ("on_stderr", "Channel<String>"), ("on_exit_code", "Channel<Item>")], "i32") +
                 rg.command_src("two_channels_only", [("first_one", "Channel<i32>"), ("second_one", "Channel<Item>")], "()"))
        add("several-channels", ra, ra, multi, config={"default_parameter_case": ra})
        add("default_field_case", ra, ra, src, config={"default_field_case": ra})

    # --- struct field: serde(rename = "...")
    for cls, strs in RENAME_STRINGS:
        for s in strs:
            add("field-rename", cls, s, rg.struct_src("Item", [("a", "i32", ['#[serde(rename = %s)]' % rs_str(s)]), ("b", "String")]) + base_cmd(), [s] if s else [])
            add("variant-rename", cls, s, rg.enum_src("Kind", [("Alpha", ['#[serde(rename = %s)]' % rs_str(s)]), ("Beta",)]) +
                rg.struct_src("Item", [("k", "Kind")]) + base_cmd(), [s] if s else [])
    # --- container rename_all on fields and variants
    for ra in RENAME_ALL:
        add("struct-rename_all", ra, ra, rg.struct_src("Item", [("user_id", "i32"), ("http_status2", "String"), ("x", "bool")], rename_all=ra) + base_cmd())
        add("enum-rename_all", ra, ra, rg.enum_src("Kind", [("FirstValue",), ("HTTPError",), ("X",)], rename_all=ra) + rg.struct_src("Item", [("k", "Kind")]) + base_cmd())
    # --- degenerate declarations: nothing between the braces
    empties = ("#[derive(Serialize, Deserialize)]\npub enum Never {}\n\n#[derive(Serialize, Deserialize)]\npub struct Nothing {}\n\n#[derive(Serialize, Deserialize)]\npub struct Unit;\n\n"
               "#[derive(Serialize, Deserialize)]\npub struct AllSkipped {\n    #[serde(skip)]\n    pub a: i32,\n}\n\n")
    for k, ty in enumerate(("Never", "Nothing", "Unit", "AllSkipped")):
        add("empty-declaration", ty, ty, empties + rg.struct_src("Item", [("v", "Option<%s>" % ty), ("list", "Vec<%s>" % ty)]) + rg.command_src("get_item", [("p", ty)], "Option<%s>" % ty) +
            "use tauri::{AppHandle, Emitter};\npub fn note(app: AppHandle, x: %s) {\n    app.emit(\"empty-%d\", x).unwrap();\n}\n" % (ty, k))
    # --- identifiers that are JS reserved words but legal Rust
    for w in RESERVED_RUST_OK:
        add("command-name", "reserved-word", w, rg.struct_src("Item", [("a", "i32")]) + rg.command_src(w, [("id", "i32")], "Item"))
        add("param-name", "reserved-word", w, rg.struct_src("Item", [("a", "i32")]) + rg.command_src("get_item", [(w, "i32")], "Item"))
        add("field-name", "reserved-word", w, rg.struct_src("Item", [(w, "i32")]) + base_cmd())
        add("channel-name", "reserved-word", w, rg.struct_src("Item", [("a", "i32")]) +
            "use tauri::ipc::Channel;\n" + rg.command_src("get_item", [("id", "i32"), (w, "Channel<Item>")], "Item"))
    # names that only BECOME a reserved word through the camelCase conversion (try_ -> try, _new -> new, in__ -> in)
    for w in sorted(tsparse.RESERVED | tsparse.STRICT_BINDING_FORBIDDEN):
        for nm in (w + "_", "_" + w, w + "__"):
            add("command-name", "camelcases-to-reserved-word", nm, rg.struct_src("Item", [("a", "i32")]) + rg.command_src(nm, [("id", "i32")], "Item"))
    for w in ["r#type", "r#match", "r#fn"]:
        add("command-name", "raw-identifier", w, rg.struct_src("Item", [("a", "i32")]) + rg.command_src(w, [("id", "i32")], "Item"))
        add("param-name", "raw-identifier", w, rg.struct_src("Item", [("a", "i32")]) + rg.command_src("get_item", [(w, "i32")], "Item"))
        add("field-name", "raw-identifier", w, rg.struct_src("Item", [(w, "i32")]) + base_cmd())
        add("variant-name", "raw-identifier", w.replace("r#", "r#") , rg.enum_src("Kind", [("r#Self" if False else "Alpha",), ("Beta",)]) + rg.struct_src("Item", [("k", "Kind")]) + base_cmd())
    for cls, names in [("digits", ["get_2fa", "v2", "a1_b2"]), ("leading-underscore", ["_hidden", "__dunder"]), ("double-underscore", ["a__b", "x___y"]),
                       ("single-letter", ["a", "x"]), ("non-ascii-ident", ["größe", "naïve_name", "データ"]), ("acronym", ["getHTTPStatus", "XMLParse"]),
                       ("trailing-underscore", ["type_", "a_"])]:
        for nm in names:
            add("command-name", cls, nm, rg.struct_src("Item", [("a", "i32")]) + rg.command_src(nm, [("id", "i32")], "Item"))
            add("param-name", cls, nm, rg.struct_src("Item", [("a", "i32")]) + rg.command_src("get_item", [(nm, "i32")], "Item"))
            add("field-name", cls, nm, rg.struct_src("Item", [(nm, "i32")]) + base_cmd())
    for cls, names in [("non-ascii-type", ["Größe", "データ"]), ("ts-global-name", ["Record", "Array", "Promise", "Object", "Date", "Channel", "Event"]),
                       ("digits-type", ["V2Item", "A1"]), ("underscore-type", ["Item_V2", "_Item"])]:
        for nm in names:
            add("type-name", cls, nm, rg.struct_src(nm, [("a", "i32")]) + rg.command_src("get_item", [("id", "i32")], nm))
            add("enum-type-name", cls, nm, rg.enum_src(nm, [("Alpha",), ("Beta",)]) + rg.command_src("get_item", [("id", "i32")], nm))
    # --- type references whose generic arguments are not (all) types: lifetimes, const arguments, elided lifetimes
    raw_struct = lambda decl, fields: "#[derive(Serialize, Deserialize)]\npub struct %s {\n%s}\n\n" % (decl, "".join("    pub %s: %s,\n" % f for f in fields))
    for cls, decl, use in [("lifetime-argument", "Borrowed<'a>", "Borrowed<'static>"), ("elided-lifetime-argument", "Borrowed<'a>", "Borrowed<'_>"),
                           ("const-generic-argument", "Buf<const N: usize>", "Buf<4>"), ("lifetime-and-type-argument", "Tagged<'a, T>", "Tagged<'static, Item>"),
                           ("std-type-with-lifetime", "Unused0", "std::borrow::Cow<'static, str>")]:
        name = decl.split("<")[0]
        fields = [("name", "&'a str")] if "'a" in decl else [("data", "Vec<u8>")]
        if ", T" in decl:
            fields.append(("inner", "T"))
        defs = rg.struct_src("Item", [("a", "i32")]) + raw_struct(decl, fields)
        add("param-type", cls, use, defs + rg.command_src("get_item", [("req", use.replace("'static", "'_"))], "Item"))
        add("return-type", cls, use, defs + rg.command_src("get_item", [("id", "i32")], use))
        add("return-type-nested", cls, use, defs + rg.command_src("get_item", [("id", "i32")], "Result<Vec<Option<%s>>, String>" % use))
        add("field-type", cls, use, defs + raw_struct("Holder", [("h", use), ("hs", "Vec<%s>" % use)]) + rg.command_src("get_item", [("id", "i32")], "Holder"))
        add("channel-type", cls, use, defs + "use tauri::ipc::Channel;\n" + rg.command_src("get_item", [("id", "i32"), ("ch", "Channel<%s>" % use)], "Item"))
        add("event-payload-type", cls, use, defs + rg.command_src("get_item", [("id", "i32")], "Item") +
            "pub fn notify(app: tauri::AppHandle, p: %s) {\n    app.emit(\"borrowed\", p).unwrap();\n}\n\n" % use)
    # --- fixed-size arrays and slices (serde handles both; the '; N' of the Rust syntax must not reach the output)
    for use in ("[u8; 32]", "[f32; 3]", "[[f32; 4]; 4]", "Vec<[u8; 16]>", "Option<[i32; 2]>", "&'static [u8]", "HashMap<String, [u8; 4]>", "([u8; 2], String)",
                "[Item; 2]", "[Option<Item>; 2]", "[u8; N]", "[u8; 2 * 16]", "Vec<&'static [i32]>"):
        cls = "slice" if "; " not in use else "fixed-size-array"
        defs = rg.struct_src("Item", [("a", "i32")])
        add("param-type", cls, use, defs + rg.command_src("get_item", [("req", use.replace("&'static ", "&"))], "Item"))
        add("return-type", cls, use, defs + rg.command_src("get_item", [("id", "i32")], use))
        add("field-type", cls, use, defs + raw_struct("Holder", [("h", use)]) + rg.command_src("get_item", [("id", "i32")], "Holder"))
        add("channel-type", cls, use, defs + "use tauri::ipc::Channel;\n" + rg.command_src("get_item", [("id", "i32"), ("ch", "Channel<%s>" % use)], "Item"))
        add("event-payload-type", cls, use, defs + rg.command_src("get_item", [("id", "i32")], "Item") +
            "pub fn notify(app: tauri::AppHandle, p: %s) {\n    app.emit(\"arr\", p).unwrap();\n}\n\n" % use.replace("&'static ", "&"))
    # --- table types nested far deeper than anybody writes them by hand (generated code does): every level is translated
    def nest(depth, leaf, k0):
        t = leaf
        wraps = ["Vec<%s>", "Option<%s>", "HashMap<String, %s>", "(u8, %s)", "BTreeMap<u32, %s>", "HashSet<%s>"]
        for k in range(depth):
            t = wraps[(k0 + k) % len(wraps)] % t
        return t
    for depth in (8, 15, 16, 17, 24, 33, 64):
        for k0, leaf in enumerate(("(i32, String)", "Item", "HashMap<String, (bool, ())>")):
            use = nest(depth, leaf, k0)
            cls = "nesting-depth-%d" % depth
            defs = rg.struct_src("Item", [("a", "i32")])
            add("param-type", cls, use, defs + rg.command_src("get_item", [("req", use)], "Item"))
            add("return-type", cls, use, defs + rg.command_src("get_item", [("id", "i32")], "Result<%s, String>" % use))
            add("field-type", cls, use, defs + raw_struct("Holder", [("h", use)]) + rg.command_src("get_item", [("id", "i32")], "Holder"))
            add("channel-type", cls, use, defs + "use tauri::ipc::Channel;\n" + rg.command_src("get_item", [("id", "i32"), ("ch", "Channel<%s>" % use)], "Item"))
            add("event-payload-type", cls, use, defs + rg.command_src("get_item", [("id", "i32")], "Item") +
                "pub fn notify(app: tauri::AppHandle, p: %s) {\n    app.emit(\"deep\", p).unwrap();\n}\n\n" % use)
    # --- instantiations of generic types the tool has no table entry for: project generics and std smart pointers
    for use in ("Page<Item>", "Page<Vec<Item>>", "Page<Option<Page<Item>>>", "Vec<Page<Vec<Item>>>", "Box<Item>", "std::sync::Arc<Vec<Item>>", "Rc<Option<Item>>",
                "Option<Box<Vec<Item>>>", "HashMap<String, Page<Vec<i32>>>"):
        cls = "project-generic-instantiation" if "Page" in use else "smart-pointer"
        defs = rg.struct_src("Item", [("a", "i32")]) + raw_struct("Page<T>", [("items", "Vec<T>"), ("total", "u32")])
        add("param-type", cls, use, defs + rg.command_src("get_item", [("req", use)], "Item"))
        add("return-type", cls, use, defs + rg.command_src("get_item", [("id", "i32")], use))
        add("field-type", cls, use, defs + raw_struct("Holder", [("h", use)]) + rg.command_src("get_item", [("hh", "Holder")], "Holder"))
        add("channel-type", cls, use, defs + "use tauri::ipc::Channel;\n" + rg.command_src("get_item", [("id", "i32"), ("ch", "Channel<%s>" % use)], "Item"))
        add("event-payload-type", cls, use, defs + rg.command_src("get_item", [("id", "i32")], "Item") +
            "pub fn notify(app: tauri::AppHandle, p: %s) {\n    app.emit(\"gen\", p).unwrap();\n}\n\n" % use)
    # --- event payloads given by expressions of every shape: whatever type the tool infers for them, it must print TypeScript
    for (setup, expr) in [("let p = models::Progress::new();", "&p"), ("let p = crate::models::Progress::default();", "p.clone()"),
                          ("let p = std::collections::HashMap::<String, models::Item>::new();", "&p"), ("let p = Vec::<models::Item>::with_capacity(4);", "p"),
                          ("let p = <models::Progress as Default>::default();", "p"), ("", "models::Progress { done: 1 }"), ("", "crate::models::Progress::new()"),
                          ("", "Some(models::Item { a: 1 })"), ("", "vec![1, 2, 3]"), ("", "[1u8; 4]"), ("", "&[1, 2][..]"), ("", "(1, \"two\", 3.0)"),
                          ("", "models::Kind::Alpha"), ("", "x as i64"), ("", "-1"), ("", "!flag"), ("", "a + b"), ("", "if flag { 1 } else { 2 }"),
                          ("", "match n { 0 => \"zero\", _ => \"many\" }"), ("", "|| 1"), ("", "async { 1 }.await"), ("", "r#\"raw \"string\"\"#"), ("", "b\"bytes\""),
                          ("", "'c'"), ("", "1_000u64"), ("", "1e-3"), ("", "json!({ \"a\": 1 })"), ("", "self::CONST_VALUE"), ("", "*boxed"), ("", "items[0].name.as_str()"),
                          ("let p: models::Progress = todo!();", "p"), ("let p: std::vec::Vec<crate::models::Item> = vec![];", "&p"), ("let p: &'static str = \"x\";", "p"),
                          ("let p: [u8; 4] = [0; 4];", "p"), ("let p: Box<dyn std::error::Error> = todo!();", "p.to_string()")]:
        body = "%s\n    app.emit(\"payload-probe\", %s).unwrap();" % (setup, expr)
        add("event-payload-expression", "inferred-from-expression", (setup + " " + expr).strip(), rg.struct_src("Item", [("a", "i32")]) + base_cmd() +
            "pub fn notify(app: tauri::AppHandle, flag: bool, n: usize, x: i32, a: i32, b: i32) {\n    %s\n}\n\n" % body)
    # --- payload variables and parameters spelled as raw identifiers
    for (params, setup, expr) in [("r#type: Item", "", "r#type"), ("r#loop: Vec<Item>", "", "&r#loop"), ("r#match: Item", "", "r#match.clone()"),
                                  ("seed: Item", "let r#ref: Item = seed;", "r#ref"), ("seed: Item", "let r#in = Item { a: 1 };", "&r#in"),
                                  ("r#type: Item", "let r#type = r#type.clone();", "r#type")]:
        add("event-payload-expression", "raw-identifier-binding", (params + " | " + setup + " " + expr).strip(), rg.struct_src("Item", [("a", "i32")]) + base_cmd() +
            "pub fn notify(app: tauri::AppHandle, %s) {\n    %s\n    app.emit(\"payload-probe\", %s).unwrap();\n}\n\n" % (params, setup, expr))
    # --- events
    for cls, names in EVENT_NAMES:
        for nm in names:
            body = "app.emit(%s, 1).unwrap();" % rs_str(nm)
            add("event-name", cls, nm, rg.struct_src("Item", [("a", "i32")]) +
                rg.command_src("get_item", [("app", "tauri::AppHandle"), ("id", "i32")], "Item", body=body + " todo!()"), [nm])
    # --- validator messages
    for cls, msgs in MESSAGES:
        for m in msgs:
            for vk in ("length(min = 1, message = %s)", "range(min = 1, max = 5, message = %s)", "email(message = %s)", "url(message = %s)",
                       "length(max = 9), email(message = %s)"):
                fty = "i32" if vk.startswith("range") else "String"
                add("validator-message", cls, m, rg.struct_src("Item", [("a", fty, ['#[validate(%s)]' % (vk % ('"' + m.replace('"', '\\"') + '"'))])],
                                                               derives="Serialize, Deserialize, Validate") + base_cmd(), [])
    return P


def check_output(g, probe, mode):
    """-> list of (file, kind, detail)"""
    faults = []
    out = g.output
    for e in out.errors():
        faults.append((e["file"], classify_error(e), "%s:%d:%d %s near %r | %s" % (e["file"], e["line"], e["col"], e["msg"], e["token"], e["text"])))
    # literal round trip: the probe's string must appear as the decoded value of some string literal / quoted key
    if probe and probe["literals"] and not faults:
        decoded = set()
        for f, text in out.texts.items():
            toks, _ = tsparse.lex(text)
            for t in toks:
                if t.k == "str":
                    decoded.add(t.v)
                elif t.k == "id":
                    decoded.add(t.v)
                elif t.k == "num":
                    decoded.add(t.raw)
        for lit in probe["literals"]:
            if lit not in decoded:
                faults.append(("*", "literal-not-round-tripped", "the string %r does not occur as a decoded literal or identifier key in any file" % lit))
    return faults


def classify_error(e):
    msg = e["msg"]
    if "reserved word" in msg:
        return "reserved-word-as-binding"
    if "Rust path separator" in msg:
        return "rust-path-separator"
    if "raw-identifier" in msg:
        return "rust-raw-identifier"
    if "unterminated string" in msg:
        return "unterminated-string"
    if "illegal character" in msg:
        return "illegal-character"
    if "predefined type name" in msg:
        return "predefined-type-name"
    if "expected a property name" in msg or "after property name" in msg or "between members" in msg:
        return "bad-property-key"
    if "identifier starts immediately after numeric" in msg:
        return "identifier-after-number"
    if "expected a type" in msg or "expected '>'" in msg or "expected ']'" in msg or "expected ')'" in msg:
        return "ill-formed-type"
    return "syntax(" + msg.split(" near")[0][:40] + ")"


def run_probe(a):
    cli, probe, mode = a
    g = proj.generate(cli, probe["files"], mode=mode, config=probe.get("config"), tag="c01")
    try:
        if g.run.timed_out:
            return {"inconclusive": "watchdog"}
        if g.run.abnormal():
            return {"blocked": "tool crashed (C15's business): rc=%s" % g.run.rc}
        if g.run.rc != 0:
            return {"blocked": "generation refused rc=%s %s" % (g.run.rc, g.run.err[-200:])}
        if not g.files():
            return {"blocked": "nothing generated"}
        faults = check_output(g, probe, mode)
        ntok = sum(len(tsparse.lex(t)[0]) for t in g.output.texts.values())
        nitems = sum(len(m.items) for m in g.output.mods.values())
        return {"faults": faults, "files": len(g.output.texts), "tokens": ntok, "items": nitems}
    finally:
        g.cleanup()


def run_typebatch(a):
    cli, types, mode = a[:3]
    files = c05.build_batch(types, spelling=a[3] if len(a) > 3 else None)
    g = proj.generate(cli, files, mode=mode, tag="c01t")
    try:
        if g.run.timed_out:
            return {"inconclusive": "watchdog"}
        if g.run.rc != 0:
            return {"blocked": "rc=%s" % g.run.rc}
        faults = []
        for e in g.output.errors():
            faults.append((e["file"], classify_error(e), "%s:%d %s near %r | %s" % (e["file"], e["line"], e["msg"], e["token"], e["text"])))
        return {"faults": faults, "files": len(g.output.texts), "tokens": sum(len(tsparse.lex(t)[0]) for t in g.output.texts.values()),
                "items": sum(len(m.items) for m in g.output.mods.values())}
    finally:
        g.cleanup()


def run_inplace(a):
    """files written over a previous, LONGER generation in the same directory must still parse (both directions of a mode
    switch, shrinking projects): a file is what is on disk after the run, not what the run meant to write"""
    cli, idx, seed = a
    from .. import compound
    rnd = random.Random(seed)
    big = compound.gen(rnd, idx, nfiles=3, ntypes=8, ncmds=9, nevents=3)
    small = {}
    keep = rnd.random()
    for pth, items in big.items():
        small[pth] = [it for it in items if rnd.random() < 0.35]
    if not any(it.kind == "command" for items in small.values() for it in items):
        first = next(it for items in big.values() for it in items if it.kind == "command")
        small[next(iter(small))].append(first)
    root = common.scratch("c01i")
    faults = []
    try:
        steps = [(big, "zod"), (small, "none"), (big, "none"), (small, "zod"), (small, "none")]
        rnd.shuffle(steps)
        steps = [(big, "zod")] + steps
        for k, (files, mode) in enumerate(steps):
            src = "src%d" % k
            g = proj.generate(cli, compound.render(files), mode=mode, root=root, src_name=src, out_name="out", force=True)
            if g.run.rc != 0:
                continue
            out = __import__("vh.tsmod", fromlist=["Output"]).Output(g.out)
            for e in out.errors():
                faults.append(("%s after regenerating in place (step %d: %s project, %s mode)" % (e["file"], k, "large" if files is big else "small", mode),
                               "%s:%d %s near %r | %s" % (e["file"], e["line"], e["msg"], e["token"], e["text"][:80]), e["file"]))
                break
        return {"faults": faults, "files": [[p2, t2] for p2, t2 in compound.render(big)]}
    finally:
        common.rmtree(root)


def run(tier):
    v = Verdict("C01", "exploration", tier)
    cli = common.build_cli()
    rnd = random.Random(common.seed())
    selftest(v)
    probes = probe_projects()
    jobs = [(cli, p, m) for p in probes for m in ("none", "zod")]
    res = common.pmap(run_probe, jobs, chunksize=4)
    covered = set()
    for (job, r) in zip(jobs, res):
        _, p, mode = job
        if "inconclusive" in r:
            v.inconclusive.append("probe hit watchdog")
            continue
        v.case((p["position"], p["cls"], p["text"], mode), nontrivial=p["cls"] != "plain",
               sample={"position": p["position"], "class": p["cls"], "text": p["text"], "mode": mode})
        if "blocked" in r:
            v.blocked += 1
            v.count("blocked_probes")
            continue
        covered.add((p["position"], p["cls"]))
        v.count("files_parsed", r["files"])
        v.count("tokens_lexed", r["tokens"])
        v.count("declarations_parsed", r["items"])
        seen = set()
        for (f, kind, detail) in r["faults"]:
            sig = "C01 %s %s %s" % (p["position"], p["cls"], f)   # first fault per (position, class, file); kind is in the text
            if sig in seen:
                continue
            seen.add(sig)
            v.violation(sig, "%s mode, %s = %r: %s" % (mode, p["position"], p["text"], detail), proj.witness_of(p["files"], mode, config=p.get("config")))
    # type-expression batches (depth <= 2 chains in quick, <= 3 in thorough) — ill-nested types are syntax faults
    types = rg.chains(2 if tier == "quick" else 3)
    for _ in range(100 if tier == "quick" else 12000):
        types.append(rg.random_type(rnd, rnd.randint(3, 6)))
    types = list(enumerate(types))
    tjobs = []
    for mode in ("none", "zod"):
        for k in range(0, len(types), c05.BATCH):
            tjobs.append((cli, types[k:k + c05.BATCH], mode, None))
            # the same expressions written through paths (std::vec::Vec<..>, crate::Named): '::' must never reach the output
            tjobs.append((cli, types[k:k + c05.BATCH], mode, rg.SPELLINGS[(k // c05.BATCH) % len(rg.SPELLINGS)] if tier == "quick" else "both"))
            if tier != "quick":
                tjobs.append((cli, types[k:k + c05.BATCH], mode, rg.SPELLINGS[(k // c05.BATCH) % 2]))
    tres = common.pmap(run_typebatch, tjobs)
    for (job, r) in zip(tjobs, tres):
        if "inconclusive" in r:
            v.inconclusive.append("type batch hit watchdog")
            continue
        for (i, t) in job[1]:
            v.case(("type", rg.rust(t), job[2], job[3]), nontrivial=rg.depth(t) >= 1)
        if "blocked" in r:
            v.blocked += len(job[1])
            continue
        v.count("files_parsed", r["files"])
        v.count("tokens_lexed", r["tokens"])
        v.count("declarations_parsed", r["items"])
        seen = set()
        for (f, kind, detail) in r["faults"]:
            sig = "C01 type-expression %s %s%s" % (f, kind, " spelling=path-qualified" if job[3] else "")
            if sig in seen:
                continue
            seen.add(sig)
            v.violation(sig, "%s mode: %s" % (job[2], detail), proj.witness_of(c05.build_batch(job[1][:1], spelling=job[3]), job[2], extra={"note": "first type of the batch shown; see detail line", "spelling": job[3]}))
    ijobs = [(cli, i, common.seed() * 1009 + i) for i in range(24 if tier == "quick" else 1500)]
    for (job, r) in zip(ijobs, common.pmap(run_inplace, ijobs)):
        v.case(("in-place", job[2]), nontrivial=True)
        v.count("in_place_regeneration_histories")
        for (what, detail, f) in r["faults"][:1]:
            v.violation("C01 regenerated-in-place %s" % f, what + ": " + detail, {"files": r["files"], "note": "large/small projects and both modes written alternately into one output directory"})
    v.extra["positions_x_classes_covered"] = len(covered)
    rule = ("a case is (position, name class, concrete text, mode) for atomic probes or (type expression, mode) for the type batches; "
            "non-trivial = not the 'plain' control class / constructor depth >= 1; distinct by the tuple")
    return v.finish(rule, assumptions=["vh/tsparse.py accepts a superset of the emitted language and is strict on identifiers, keys, literals, nesting"])


# ---------------------------------------------------------------- oracle self-test (positive + negative corpus)
POSITIVE = [
    "export interface A { a: number; 'b-c'?: string; [key: string]: unknown; }",
    "export type K = \"a\" | \"b-c\" | \"say \\\"hi\\\"\";",
    "export const S = z.object({ a: z.coerce.number().min(1, { message: \"x\" }).optional(), \"b-c\": z.array(z.string()).nullable(), });",
    "export type T = z.infer<typeof S>;",
    "export async function f(params: types.FParams, hooks?: CommandHooks<types.X | null>): Promise<(types.X | null)[]> { try { const r = types.S.safeParse(params); if (!r.success) { hooks?.onValidationError?.(r.error); throw r.error; } const data = await invoke<types.X[]>('f', { ...r.data, ch: params.ch }); return data; } catch (error) { if (!(error instanceof ZodError)) { hooks?.onInvokeError?.(error); } throw error; } finally { hooks?.onSettled?.(); } }",
    "import { listen, type UnlistenFn, type Event } from '@tauri-apps/api/event';\nimport * as types from './types';\nexport * from './types';",
    "export async function onX(handler: (payload: Record<string, [number, string | null]>) => void): Promise<UnlistenFn> { return listen<Record<string, [number, string | null]>>('a:b/c-d', (event) => { handler(event.payload); }); }",
    "export interface P extends z.infer<typeof PSchema> { onEvent: Channel<types.M>; }",
    "export const m = \"ok \\u00f6 \\u0397 \\uD83D\\uDE00 \\u{1F600} \\x41\";",
]
NEGATIVE = [
    "export async function delete(): Promise<void> { return invoke('delete'); }",
    "export interface A { user-id: number; }",
    "export interface A { r#type: string; }",
    "export interface A { 1st: string; }",
    "export type K = \"a\" | \"say \"hi\"\";",
    "export async function f(): Promise<types.HashMap<String> { return invoke('f'); }",
    "export async function f(): Promise<types.(Inner> { return invoke('f'); }",
    "export async function onUser:login(handler: (payload: number) => void): Promise<UnlistenFn> { return listen<number>('user:login', (e) => {}); }",
    "export const S = z.object({ user-id: z.string(), });",
    "export const S = z.object({ a: z.string().min(1, { message: \"say \"hi\"\" }), });",
    "export type X = std::path::PathBuf;",
    "export interface string { a: number; }",
    "export async function f(class: number): Promise<void> {}",
    "export type T = [number, string;",
    "export const x = 'unterminated;",
    # ill-formed escapes (four hex digits exactly; blanks, signs and 0x are not digits)
    "export const m = \"bad \\uf6 escape\";",
    "export const m = \"bad \\u397 escape\";",
    "export const m = \"bad \\u+123 escape\";",
    "export const m = \"bad \\x4 escape\";",
    "export const m = \"bad \\u{ 1F600} escape\";",
    "export const m = \"bad \\u{110000} escape\";",
]


def selftest(v):
    from .. import selftest as st
    v.count("oracle_selftest_readme_snippets", st.test_parser_readme())
    v.count("oracle_selftest_assertions", st.test_shapes() + st.test_zodeval() + st.test_resolver() + st.test_strace_parser() + st.test_exact_json())
    for s in POSITIVE:
        m = tsparse.parse_module(s)
        if m.errors:
            raise common.Inconclusive("oracle self-test failed: positive snippet rejected: %r -> %r" % (s[:80], m.errors[0]))
    for s in NEGATIVE:
        m = tsparse.parse_module(s)
        if not m.errors:
            raise common.Inconclusive("oracle self-test failed: negative snippet accepted: %r" % s[:80])
    v.count("oracle_selftest_positive", len(POSITIVE))
    v.count("oracle_selftest_negative", len(NEGATIVE))
