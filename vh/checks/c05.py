"""C05 — each emitted TypeScript type denotes the JSON shape serde produces.
Workload: chains of constructor slots over leaf representatives (exhaustive to depth 2 in quick, 3 in thorough),
each placed at the five translation sites, both modes, batched per generated project. Oracle: the independent
structural recursion rustgen.M (README table), re-validated against real serde_json by the oracle crate."""
import random

from .. import common, proj, rustgen as rg, shape as sh
from ..common import Verdict
from . import defects

BATCH = 250
# custom type names that begin like a container or primitive the tool recognises by string prefix
AWKWARD_NAMES = ["Options", "OptionalFeature", "Vec3", "Vector", "HashSetStats", "HashMapper", "BTreeMapView", "ResultSet", "Results", "Stringy",
                 "Boolean", "U8", "I32Wrapper", "Record", "Tuple", "T", "Str", "Channel2",
                 # names TypeScript's own library uses (a project type shadows them inside its module)
                 "Date", "Map", "Set", "Error", "Event", "Promise", "Array", "Object", "Number", "Partial", "Symbol",
                 # names that end the way generated names end (<Name>Schema, <Command>Params), next to their stems
                 "Table", "TableSchema", "Schema", "JsonSchema", "QueryParams", "QueryParamsSchema", "Infer",
                 # legal identifiers that are not CamelCase words, and names well-known crates use for untyped data
                 "Item_V2", "Api_Response", "_Private", "Value", "JsonValue", "Any",
                 # multi-byte identifiers: every string operation of the tool on a type expression must respect character boundaries
                 "Größe", "データ", "Zoë"]
SITES = ("param", "return", "field", "channel", "event", "event-let")
# initialisers of annotated locals that carry an event payload: the annotation is the payload's type, whatever produces the value
LET_INITS = ["Default::default()", "Utc::now()", "Vec::new()", "std::env::temp_dir()", "HashMap::with_capacity(4)", "store::load(&app)", "Builder::new().build()",
             "Uuid::new_v4()", "make()", "Decimal::from(3)", "Named::load_all()", "other", "&*shared"]


def with_static(t):
    """lifetimes are needed for references outside parameter position"""
    return rg.rust(t).replace("&", "&'static ")


def build_batch(types, external=(), spelling=None):
    """external: names that are used but deliberately NOT defined in the project (foreign types, e.g. mapped ones);
    spelling: None, or one of rg.SPELLINGS — the probe types are then written with path-qualified names (std::vec::Vec<..>,
    crate::Named), which denote the same types"""
    src = [rg.PRELUDE, "use tauri::{AppHandle, Emitter, ipc::Channel};\n\n",
           rg.struct_src("Named", [("a", "i32")]),
           rg.command_src("use_named", [("n", "Named")], "Named")]
    used = set()
    for (_, t) in types:
        used |= rg.named_in(t)
    for nm in sorted(used - {"Named"} - set(external)):
        src.append(rg.struct_src(nm, [("a", "i32")]))
    q = lambda text: rg.qualify(text, spelling, used - set(external))
    for (i, t) in types:
        r = q(rg.rust(t))
        ws = q(with_static(t))
        src.append(rg.struct_src("F%d" % i, [("v", ws)]))
        src.append(rg.command_src("cmd_%d" % i, [("p", r), ("f", "F%d" % i), ("ch", "Channel<%s>" % ws)], ws))
        src.append("pub fn ev_%d(app: AppHandle, x: %s) {\n    app.emit(\"e%d\", x).unwrap();\n}\n\n" % (i, r, i))
        src.append("pub fn evl_%d(app: AppHandle, other: Named) {\n    let y: %s = %s;\n    app.emit(\"l%d\", y).unwrap();\n}\n\n" % (i, ws, LET_INITS[i % len(LET_INITS)], i))
    return [("lib.rs", "".join(src))]


def expected(t, site, mode):
    return rg.M(t)


def prop_of(members, key):
    for m in members:
        if m[0] == "prop" and m[1] == key:
            return m
    return None


def zprop_of(shape, key):
    if shape[0] != "obj":
        return None
    for p in shape[1]:
        if p[0] == key:
            return p
    return None


def observe(out, types, mode):
    """-> list of (i, site, got_shape | None, note)"""
    res = []
    cmds = {}
    for name, lst in out.commands().items():
        for c in lst:
            if c["invoke_name"]:
                cmds[c["invoke_name"]] = c
    ifaces = out.interfaces()
    consts = out.consts()
    listeners = {l["event"]: l for l in out.listeners() if l["event"]}
    for (i, t) in types:
        c = cmds.get("cmd_%d" % i)
        # return
        if c is None or c["ret"] is None:
            res.append((i, "return", None, "wrapper missing or unparsable"))
        else:
            try:
                s = sh.ts_shape(c["ret"])
                res.append((i, "return", s[1] if s[0] == "promise" else None, "" if s[0] == "promise" else "return annotation is not Promise<..>"))
            except sh.ShapeError as e:
                res.append((i, "return", None, str(e)))
        pname = "Cmd%dParams" % i
        if mode == "none":
            pi = ifaces.get(pname)
            for site, key in (("param", "p"), ("channel", "ch")):
                m = prop_of(pi["members"], key) if pi else None
                if m is None:
                    res.append((i, site, None, "Params interface or key missing/unparsable"))
                    continue
                try:
                    s = sh.ts_shape(m[4])
                    if site == "channel":
                        s = s[1] if s[0] == "channel" else None
                    res.append((i, site, s, ""))
                except sh.ShapeError as e:
                    res.append((i, site, None, str(e)))
            fi = ifaces.get("F%d" % i)
            m = prop_of(fi["members"], "v") if fi else None
            if m is None:
                res.append((i, "field", None, "interface or key missing/unparsable"))
            else:
                try:
                    res.append((i, "field", sh.ts_shape(m[4]), ""))
                except sh.ShapeError as e:
                    res.append((i, "field", None, str(e)))
        else:
            for site, cname, key in (("param", pname + "Schema", "p"), ("field", "F%dSchema" % i, "v")):
                ci = consts.get(cname)
                if ci is None or ci["init"] is None:
                    res.append((i, site, None, "schema constant missing/unparsable"))
                    continue
                try:
                    s = sh.zod_shape(ci["init"])
                    p = zprop_of(s, key)
                    if p is None:
                        res.append((i, site, None, "schema key missing"))
                    else:
                        res.append((i, site, ("optional", p[1]) if p[2] else p[1], ""))
                except sh.ShapeError as e:
                    res.append((i, site, None, str(e)))
            pi = ifaces.get(pname)
            m = prop_of(pi["members"], "ch") if pi else None
            if m is None:
                res.append((i, "channel", None, "Params interface or channel key missing/unparsable"))
            else:
                try:
                    s = sh.ts_shape(m[4])
                    res.append((i, "channel", s[1] if s[0] == "channel" else None, ""))
                except sh.ShapeError as e:
                    res.append((i, "channel", None, str(e)))
        l = listeners.get("e%d" % i)
        if l is None or l["payload"] is None:
            res.append((i, "event", None, "listener missing/unparsable"))
        else:
            try:
                res.append((i, "event", sh.ts_shape(l["payload"]), ""))
            except sh.ShapeError as e:
                res.append((i, "event", None, str(e)))
        l = listeners.get("l%d" % i)
        if l is None or l["payload"] is None:
            res.append((i, "event-let", None, "listener missing/unparsable"))
        else:
            try:
                res.append((i, "event-let", sh.ts_shape(l["payload"]), ""))
            except sh.ShapeError as e:
                res.append((i, "event-let", None, str(e)))
    return res


def accept(t, site, mode, got):
    """the property's own acceptance: emitted shape == M(T); at a Zod schema site a TOP-LEVEL Option may be omittable"""
    exp = rg.M(t)
    if got == exp:
        return True
    if mode == "zod" and site in ("param", "field") and got is not None and got[0] == "optional":
        core = t
        while core[0] == "ref":
            core = core[1]
        if core[0] == "opt":
            # "Option rendered as omittable" (C10's wording) — consecutive top-level Options collapse, as serde's do
            while core[0] in ("opt", "ref"):
                core = core[1]
            inner = rg.M(core)
            return got[1] == inner or got[1] == exp
    return False


def run_batch(a):
    cli, types, mode = a[:3]
    spelling = a[3] if len(a) > 3 else None
    files = build_batch(types, spelling=spelling)
    g = proj.generate(cli, files, mode=mode, tag="c05")
    try:
        if g.run.timed_out:
            return {"inconclusive": "watchdog"}
        if g.run.rc != 0:
            # the tool refuses (or dies on) a batch of supported types: halve the batch until the expressions it fails on are isolated —
            # each of them is a type expression without a translation
            if len(types) > 1:
                h = len(types) // 2
                parts = [run_batch((cli, types[:h], mode, spelling)), run_batch((cli, types[h:], mode, spelling))]
                if any("inconclusive" in p_ for p_ in parts):
                    return {"inconclusive": "watchdog"}
                return {"ok": sum(p_.get("ok", 0) for p_ in parts), "bad": [b for p_ in parts for b in p_.get("bad", [])], "n": sum(p_.get("n", 0) for p_ in parts),
                        "blocked": sum(p_.get("blocked", 0) for p_ in parts), "note": "; ".join(p_["note"] for p_ in parts if p_.get("note"))[:300]} if any(p_.get("blocked") for p_ in parts) else \
                       {"ok": sum(p_.get("ok", 0) for p_ in parts), "bad": [b for p_ in parts for b in p_.get("bad", [])], "n": sum(p_.get("n", 0) for p_ in parts)}
            (i, _t) = types[0]
            tail = (g.run.err or g.run.out or "").strip().splitlines()
            first = next((ln for ln in tail if "panicked at" in ln or ln.startswith("Error")), tail[-1] if tail else "")
            return {"ok": 0, "bad": [(i, "generation", None, "the run fails on this type alone: exit %s, %s" % (g.run.rc, first[:160]))], "n": len(SITES)}
        out = g.output
        obs = observe(out, types, mode)
        tmap = dict(types)
        bad = []
        ok = 0
        for (i, site, got, note) in obs:
            t = tmap[i]
            if accept(t, site, mode, got):
                ok += 1
            else:
                bad.append((i, site, got, note))
        return {"ok": ok, "bad": bad, "n": len(obs)}
    finally:
        g.cleanup()


# ---- the event-payload site again: which binding of a name the payload is. A payload variable has the type of the binding that is in
# scope at the emit — the last `let` of that name in the enclosing blocks, else the parameter. Scenarios: (label, function text with
# @T@ for a probe type, expectation) where the expectation is "T" (the probe type, exactly), "A" / "B" (the two marker structs, exactly)
# or "?" — nothing in the source says what the type is: `unknown` is the only honest answer. For "B?" (a call Type::function(..), which
# usually but not necessarily returns Type) either B or unknown is honest. A struct literal or a typed variable spells the type out.
SCOPE_SCENARIOS = [
    ("parameter", "pub fn sc@K@(app: AppHandle, y: @T@) {\n    app.emit(\"sc@K@\", y).unwrap();\n}\n", "T"),
    ("annotated-let-shadows-parameter", "pub fn sc@K@(app: AppHandle, y: ScA) {\n    let y: @T@ = make(y);\n    app.emit(\"sc@K@\", y).unwrap();\n}\n", "T"),
    ("annotated-let-shadows-annotated-let", "pub fn sc@K@(app: AppHandle) {\n    let y: ScA = make(0);\n    let y: @T@ = make(y);\n    app.emit(\"sc@K@\", &y).unwrap();\n}\n", "T"),
    ("struct-literal-let-shadows-parameter", "pub fn sc@K@(app: AppHandle, y: @T@) {\n    let y = ScB { b: format!(\"{:?}\", y) };\n    app.emit(\"sc@K@\", &y).unwrap();\n}\n", "B"),
    ("struct-literal-let-shadows-struct-literal-let", "pub fn sc@K@(app: AppHandle) {\n    let y = ScA { a: 1 };\n    let _ = &y;\n    let y = ScB { b: String::new() };\n    app.emit(\"sc@K@\", &y).unwrap();\n}\n", "B"),
    ("constructor-call-let-shadows-parameter", "pub fn sc@K@(app: AppHandle, y: @T@) {\n    let y = ScB::from_probe(&y);\n    app.emit(\"sc@K@\", y).unwrap();\n}\n", "B?"),
    ("variable-let-shadows-parameter", "pub fn sc@K@(app: AppHandle, y: ScA, other: @T@) {\n    let y = other;\n    app.emit(\"sc@K@\", y).unwrap();\n}\n", "T"),
    ("opaque-call-let-shadows-parameter", "pub fn sc@K@(app: AppHandle, y: @T@) {\n    let y = summarise(y);\n    app.emit(\"sc@K@\", y).unwrap();\n}\n", "?"),
    ("field-access-let-shadows-parameter", "pub fn sc@K@(app: AppHandle, y: ScA) {\n    let y = y.a;\n    app.emit(\"sc@K@\", y).unwrap();\n}\n", "?"),
    ("tuple-pattern-let-shadows-parameter", "pub fn sc@K@(app: AppHandle, y: @T@) {\n    let (y, _rest) = split(y);\n    app.emit(\"sc@K@\", y).unwrap();\n}\n", "?"),
    ("inner-block-let-does-not-outlive-its-block", "pub fn sc@K@(app: AppHandle, y: @T@) {\n    {\n        let y = ScB { b: String::new() };\n        let _ = &y;\n    }\n    app.emit(\"sc@K@\", y).unwrap();\n}\n", "T"),
    ("if-branch-let-does-not-outlive-the-branch", "pub fn sc@K@(app: AppHandle, y: @T@, c: bool) {\n    if c {\n        let y: ScB = make(0);\n        drop(y);\n    }\n    app.emit(\"sc@K@\", y).unwrap();\n}\n", "T"),
    ("loop-variable-shadows-parameter-inside-the-loop", "pub fn sc@K@(app: AppHandle, y: @T@) {\n    for y in pieces(&y) {\n        app.emit(\"sc@K@\", y).unwrap();\n    }\n}\n", "?"),
    ("loop-variable-gone-after-the-loop", "pub fn sc@K@(app: AppHandle, y: @T@) {\n    for y in 0..3 {\n        let _ = y;\n    }\n    app.emit(\"sc@K@\", y).unwrap();\n}\n", "T"),
    ("match-arm-binding-shadows-parameter", "pub fn sc@K@(app: AppHandle, y: @T@) {\n    match lookup(&y) {\n        Some(y) => app.emit(\"sc@K@\", y).unwrap(),\n        None => {}\n    }\n}\n", "?"),
    ("if-let-binding-shadows-parameter", "pub fn sc@K@(app: AppHandle, y: @T@) {\n    if let Some(y) = lookup(&y) {\n        app.emit(\"sc@K@\", y).unwrap();\n    }\n}\n", "?"),
    ("closure-parameter-shadows-parameter", "pub fn sc@K@(app: AppHandle, y: @T@) {\n    let send = |y| app.emit(\"sc@K@\", y).unwrap();\n    send(1);\n    let _ = y;\n}\n", "?"),
    ("earlier-match-arm-binding-does-not-reach-a-later-arm", "pub fn sc@K@(app: AppHandle, y: @T@) {\n    match lookup(&y) {\n        Some(y) => drop(y),\n        None => app.emit(\"sc@K@\", y).unwrap(),\n    }\n}\n", "T"),
    ("if-let-binding-does-not-reach-the-else-branch", "pub fn sc@K@(app: AppHandle, y: @T@) {\n    if let Some(y) = lookup(&y) {\n        drop(y);\n    } else {\n        app.emit(\"sc@K@\", y).unwrap();\n    }\n}\n", "T"),
    ("closure-parameter-gone-after-the-closure", "pub fn sc@K@(app: AppHandle, y: @T@) {\n    let consume = |y: ScB| drop(y);\n    consume(make(0));\n    app.emit(\"sc@K@\", y).unwrap();\n}\n", "T"),
    ("while-let-binding-gone-after-the-loop", "pub fn sc@K@(app: AppHandle, y: @T@) {\n    while let Some(y) = next_piece() {\n        drop(y);\n    }\n    app.emit(\"sc@K@\", &y).unwrap();\n}\n", "T"),
    ("match-guard-sees-the-arm-binding-only", "pub fn sc@K@(app: AppHandle, y: @T@) {\n    match lookup(&y) {\n        Some(y) if check(&y) => {}\n        _ => {\n            app.emit(\"sc@K@\", y).unwrap();\n        }\n    }\n}\n", "T"),
    ("annotated-let-without-initialiser", "pub fn sc@K@(app: AppHandle, c: bool) {\n    let y: @T@;\n    if c {\n        y = make(1);\n    } else {\n        y = make(2);\n    }\n    app.emit(\"sc@K@\", y).unwrap();\n}\n", "T"),
    ("annotated-let-without-initialiser-shadows-parameter", "pub fn sc@K@(app: AppHandle, y: ScA) {\n    let _ = &y;\n    let y: @T@;\n    y = make(0);\n    app.emit(\"sc@K@\", &y).unwrap();\n}\n", "T"),
    ("untyped-let-without-initialiser-shadows-parameter", "pub fn sc@K@(app: AppHandle, y: @T@) {\n    let _ = &y;\n    let y;\n    y = compute();\n    app.emit(\"sc@K@\", y).unwrap();\n}\n", "?"),
    ("let-after-the-emit-does-not-reach-back", "pub fn sc@K@(app: AppHandle, y: @T@) {\n    app.emit(\"sc@K@\", &y).unwrap();\n    let y = ScB { b: String::new() };\n    let _ = y;\n}\n", "T"),
    ("same-name-in-another-function", "pub fn sc@K@_first(_app: AppHandle, y: ScA) {\n    let _ = y;\n}\n\npub fn sc@K@(app: AppHandle, y: @T@) {\n    app.emit(\"sc@K@\", y).unwrap();\n}\n", "T"),
]
SCOPE_TYPES = ["Named", "Vec<Named>", "Option<Named>", "HashMap<String, Named>", "(Named, u32)", "String", "u64", "Vec<Vec<u8>>", "bool"]


def run_scope_cases(a):
    cli, k0, mode = a[:3]
    src = [rg.PRELUDE, "use tauri::{AppHandle, Emitter};\n\n", rg.struct_src("Named", [("a", "i32")]), rg.struct_src("ScA", [("a", "i32")]), rg.struct_src("ScB", [("b", "String")]),
           rg.command_src("anchor", [("n", "Named"), ("a", "ScA"), ("b", "ScB")], "i32")]
    want = {}
    for j, (label, text, exp) in enumerate(SCOPE_SCENARIOS):
        tr = SCOPE_TYPES[(k0 + j) % len(SCOPE_TYPES)]
        key = "%d_%d" % (k0, j)
        src.append(text.replace("@K@", key).replace("@T@", tr) + "\n")
        want["sc" + key] = (label, tr, exp)
    files = [("lib.rs", "".join(src))]
    g = proj.generate(cli, files, mode=mode, tag="c05s")
    try:
        if g.run.timed_out:
            return {"inconclusive": "watchdog"}
        if g.run.rc != 0:
            return {"blocked": True, "note": g.run.err[-200:]}
        listeners = {l["event"]: l for l in g.output.listeners() if l["event"]}
        marker = {"A": ("ref", "ScA"), "B": ("ref", "ScB")}
        bad, n = [], 0
        for ev, (label, tr, exp) in want.items():
            n += 1
            l = listeners.get(ev)
            try:
                got = sh.ts_shape(l["payload"]) if l and l["payload"] is not None else None
            except sh.ShapeError:
                got = None
            t_shape = rg.M(TYPE_OF[tr])
            allowed = []
            core = exp.rstrip("?")
            if core == "T":
                allowed.append(t_shape)
            elif core in marker:
                allowed.append(marker[core])
            if exp.endswith("?"):
                allowed.append(("unknown",))
            if got not in allowed:
                bad.append((label, tr, [sh.show(x) for x in allowed], sh.show(got) if got else "<no listener>"))
        return {"bad": bad, "n": n, "files": files}
    finally:
        g.cleanup()


TYPE_OF = {"Named": rg.N("Named"), "Vec<Named>": ("vec", rg.N("Named")), "Option<Named>": ("opt", rg.N("Named")), "HashMap<String, Named>": ("hmap", rg.P("String"), rg.N("Named")),
           "(Named, u32)": ("tuple", [rg.N("Named"), rg.P("u32")]), "String": rg.P("String"), "u64": rg.P("u64"), "Vec<Vec<u8>>": ("vec", ("vec", rg.P("u8"))), "bool": rg.P("bool")}


def run(tier):
    v = Verdict("C05", "exploration", tier)
    cli = common.build_cli()
    rnd = random.Random(common.seed())
    maxd = 2 if tier == "quick" else 3
    types = rg.chains(maxd)
    exhaustive_n = len(types)
    # all 19 primitive spellings at depth <= 1
    for p in rg.PRIM_SPELLINGS:
        types.append(rg.P(p))
        for (_, f) in rg.slots():
            t = f(rg.P(p))
            if rg.valid_type(t):
                types.append(t)
    for nm in AWKWARD_NAMES:
        types.append(rg.N(nm))
        for (_, f) in rg.slots():
            types.append(f(rg.N(nm)))
    nsample = 300 if tier == "quick" else 30000
    for _ in range(nsample):
        types.append(rg.random_type(rnd, rnd.randint(maxd + 1, 6), named=("Named", rnd.choice(AWKWARD_NAMES))))
    # de-duplicate by rendering
    seen = set()
    uniq = []
    for t in types:
        r = rg.rust(t)
        if r not in seen:
            seen.add(r)
            uniq.append(t)
    types = list(enumerate(uniq))
    tmap = dict(types)
    jobs = []
    for mode in ("none", "zod"):
        for k in range(0, len(types), BATCH):
            jobs.append((cli, types[k:k + BATCH], mode, None))
    # the same expressions spelled through paths (std::vec::Vec<..>, crate::Named): the exhaustive chains in every spelling,
    # the sampled rest in one spelling per batch
    for mode in ("none", "zod"):
        for k in range(0, len(types), BATCH):
            for si, sp in enumerate(rg.SPELLINGS):
                if k < exhaustive_n or (k // BATCH) % len(rg.SPELLINGS) == si:
                    jobs.append((cli, types[k:k + BATCH], mode, sp))
    results = common.pmap(run_batch, jobs)
    for (job, res) in zip(jobs, results):
        mode = job[2]
        spelling = job[3]
        if "inconclusive" in res:
            v.inconclusive.append("batch hit watchdog")
            continue
        if "blocked" in res:
            v.blocked += res["blocked"]
            v.evaluations += res["blocked"]
            v.count("batches_failed_to_generate")
            v.extra.setdefault("generation_failures", []).append(res["note"])
            continue
        v.count("sites_compared_%s" % mode, res["n"])
        v.count("sites_equal_%s" % mode, res["ok"])
        if spelling:
            v.count("sites_compared_with_path-qualified_spelling_%s" % spelling, res["n"])
        for (i, t) in job[1]:
            for s in SITES:
                v.case((mode, s, rg.rust(t), spelling), nontrivial=rg.depth(t) >= 1)
        for (i, site, got, note) in res["bad"]:
            t = tmap[i]
            if site == "generation":
                v.violation("C05 generation-fails %s %s%s" % (mode, rg.skeleton(t), " spelling=path-qualified" if spelling else ""),
                            "a project that uses the Rust type `%s` at the five sites cannot be generated at all (%s mode): %s" % (rg.rust(t), mode, note),
                            proj.witness_of(build_batch([(i, t)], spelling=spelling), mode, extra={"type": rg.rust(t), "spelling": spelling}))
                continue
            sigs = defects.classify_c05(t, site, mode, got, note)
            what = "%s site, %s mode: Rust type `%s` expected %s but emitted %s %s" % (
                site, mode, rg.rust(t), sh.show(rg.M(t)), sh.show(got) if got else "<nothing usable>", note)
            if spelling:
                what += " [written path-qualified (%s): `%s`]" % (spelling, rg.qualify(rg.rust(t), spelling, rg.named_in(t)))
            for cls in sigs:
                # a fault that only the qualified spelling shows gets its own signature; one the plain spelling shows too keeps the plain one
                modelled = cls.startswith(("ts-text ", "zod-schema "))     # output equals a recorded defect model exactly: same defect, same signature
                v.violation("C05 " + cls + (" spelling=path-qualified" if spelling and not modelled else ""), what,
                            proj.witness_of(build_batch([(i, t)], spelling=spelling), mode, extra={"type": rg.rust(t), "site": site, "spelling": spelling}))
    sjobs = [(cli, k, mode) for k in range(len(SCOPE_TYPES)) for mode in ("none", "zod")]
    for (job, res) in zip(sjobs, common.pmap(run_scope_cases, sjobs)):
        if "inconclusive" in res:
            v.inconclusive.append("scope batch hit watchdog")
            continue
        if "blocked" in res:
            v.blocked += 1
            v.evaluations += 1
            continue
        v.count("payload_binding_scenarios", res["n"])
        for j in range(res["n"]):
            v.case(("scope", job[1], j, job[2]), nontrivial=True)
        for (label, tr, allowed, got) in res["bad"]:
            v.violation("C05 event-payload-binding %s" % label, "%s mode, probe type %s: the payload's type is %s, the listener says %s" % (job[2], tr, " or ".join(allowed), got),
                        proj.witness_of(res["files"], job[2], extra={"scenario": label}))
    v.samples = [{"type": rg.rust(t), "expected": sh.show(rg.M(t))} for (i, t) in types[:: max(1, len(types) // 8)]][:8]
    v.extra["exhaustive_chain_depth"] = maxd
    v.extra["exhaustive_chain_expressions"] = exhaustive_n
    v.extra["sampled_deeper_expressions"] = nsample
    # validate M against real serde_json on this run's sample
    from .. import serde_oracle
    sv = serde_oracle.validate_M([t for (_, t) in types], rnd, 120 if tier == "quick" else 1500)
    v.extra["serde_validation"] = sv
    if sv.get("disagreements"):
        v.inconclusive.append("reference model M disagrees with real serde_json on %d sample types: %s" % (len(sv["disagreements"]), sv["disagreements"][:3]))
    rule = ("a case is (mode, site, Rust type expression); non-trivial = constructor depth >= 1; distinct by the rendered type. "
            "Exhaustive over chains of the 18 constructor slots over 7 leaf representatives up to the stated depth, "
            "plus every primitive spelling at depth <= 1, plus seeded random trees of depth up to 6")
    return v.finish(rule, assumptions=["M follows the README type table", "top-level Option at a Zod schema site may be omittable (DESIGN 4.2)"],
                    exhaustive=False)
