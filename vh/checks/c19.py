"""C19 — configuration is preserved, round-trips, and obeys flag > file > default.
(a) generated JSON documents go through `init` (real CLI) and save_to_tauri_config (driver); an exact JSON reader
    (integers as integers of any size, non-integers as f64) compares everything outside plugins.typegen;
(b) save -> from_tauri_config round trip of the ten persisted settings;
(c) the full flag/file/default matrix for project path, output path, validation library, verbose, force, observed through
    effects (which project's command appears, which directory receives files, the Generator: header, verbose markers,
    regeneration despite a matching cache), for tauri.conf.json discovery and for -c FILE;
(d) unsupported validation library / non-existent project path => exit 1 and an empty snapshot diff."""
import itertools
import json
import os
import re
import random

from .. import common, fsmon, proj, rustgen as rg
from ..common import Verdict


# ---------------------------------------------------------------- exact JSON
def exact_load(text):
    return json.loads(text, parse_int=lambda x: ("int", int(x)), parse_float=lambda x: ("float", float(x)))


def rand_json(rnd, depth):
    r = rnd.random()
    if depth <= 0 or r < 0.35:
        k = rnd.randrange(9)
        if k == 0:
            return rnd.choice([0, 1, -1, 42, 2**31, -2**31, 2**53, 2**53 + 1, 2**63 - 1, -2**63, 2**64 - 1, 10**15 + 7])
        if k == 1:
            return rnd.choice([0.5, -1.25, 3.141592653589793, 1e-7, 1.5e300, -2.5e-300, 100.0, 1e21, 0.1, 123456.789])
        if k == 2:
            return rnd.choice([True, False])
        if k == 3:
            return None
        if k == 4:
            return ""
        return "".join(rnd.choice(["a", "B", "z", " ", "é", "日本", "😀", "\"", "\\", "/", "\n", "\t", "\u0007", " ", "$", "{", "}", ":", ",", "typegen", "plugins"]) for _ in range(rnd.randint(0, 8)))
    if r < 0.65:
        return [rand_json(rnd, depth - 1) for _ in range(rnd.randint(0, 4))]
    d = {}
    for _ in range(rnd.randint(0, 5)):
        key = "".join(rnd.choice(["k", "ey", "A", "_", "-", ".", " ", "é", "日", "plugins", "typegen", "\"", "1", "$schema"]) for _ in range(rnd.randint(1, 3)))
        d[key] = rand_json(rnd, depth - 1)
    return d


def rand_doc(rnd):
    doc = {"productName": "app", "version": "1.0.0", "identifier": "com.example.app", "build": {"frontendDist": "../dist", "devUrl": "http://localhost:1420"}}
    for _ in range(rnd.randint(0, 6)):
        doc["x" + str(rnd.randint(0, 99))] = rand_json(rnd, rnd.randint(1, 6))
    mode = rnd.choice(["absent", "empty", "others", "with-typegen", "others+typegen", "null", "typegen-garbage", "plugins-not-an-object"])
    if mode == "empty":
        doc["plugins"] = {}
    elif mode == "others":
        doc["plugins"] = {"shell": {"open": True}, "fs": rand_json(rnd, 3), "updater": {"endpoints": ["https://x/y"], "pubkey": "abc"}}
    elif mode == "with-typegen":
        # a complete earlier entry: every setting the tool persists has an old, different value
        doc["plugins"] = {"typegen": {"projectPath": "old", "outputPath": "old-out", "validationLibrary": "zod", "extraKey": rand_json(rnd, 2), "verbose": True, "visualizeDeps": True,
                                      "includePrivate": True, "force": True, "typeMappings": {"DateTime<Utc>": "number", "Old": "string"},
                                      "excludePatterns": ["old/**"], "includePatterns": ["legacy/*.rs"]}}
    elif mode == "others+typegen":
        doc["plugins"] = {"a-plugin": rand_json(rnd, 3), "typegen": {"projectPath": "./nowhere", "typeMappings": {"Stale": "boolean"}, "force": True}, "z": [1, 2, {"q": None}]}
    elif mode == "typegen-garbage":
        doc["plugins"] = {"typegen": rnd.choice([5, "str", [1], None]), "keep": {"me": 1.5}}
    elif mode == "null":
        doc["plugins"] = None
    elif mode == "plugins-not-an-object":
        # not a section the settings can be written into: the write either says so and leaves the document alone, or it succeeds and
        # the settings can be read back — never a reported success that wrote nothing
        doc["plugins"] = rnd.choice([[], [{"typegen": 1}], "none", 0, False])
    if rnd.random() < 0.3:
        doc["app"] = {"windows": [{"title": "t", "width": 800, "height": 600.5}], "security": {"csp": None}}
    return doc, mode


def strip_typegen(v):
    if isinstance(v, dict):
        v = dict(v)
        if isinstance(v.get("plugins"), dict):
            p = dict(v["plugins"])
            p.pop("typegen", None)
            v["plugins"] = p
    return v


def diff_json(a, b, path="$"):
    """first difference between two exact-loaded documents, or None"""
    if isinstance(a, tuple) or isinstance(b, tuple):
        if not (isinstance(a, tuple) and isinstance(b, tuple)):
            return "%s: %r vs %r" % (path, a, b)
        if a[0] == "int" and b[0] == "int":
            return None if a[1] == b[1] else "%s: integer %s became %s" % (path, a[1], b[1])
        return None if float(a[1]) == float(b[1]) else "%s: number %r became %r" % (path, a[1], b[1])
    if type(a) != type(b):
        return "%s: %s became %s" % (path, type(a).__name__, type(b).__name__)
    if isinstance(a, dict):
        for k in a:
            if k not in b:
                return "%s: key %r lost" % (path, k)
        for k in b:
            if k not in a:
                return "%s: key %r appeared" % (path, k)
        for k in a:
            d = diff_json(a[k], b[k], path + "." + k)
            if d:
                return d
        return None
    if isinstance(a, list):
        if len(a) != len(b):
            return "%s: array length %d became %d" % (path, len(a), len(b))
        for i, (x, y) in enumerate(zip(a, b)):
            d = diff_json(x, y, "%s[%d]" % (path, i))
            if d:
                return d
        return None
    return None if a == b else "%s: %r became %r" % (path, a, b)


PROJECT = rg.PRELUDE + rg.struct_src("Item", [("a", "i32")]) + rg.command_src("%s", [("id", "i32")], "Item")


def make_project(d, cmdname):
    common.write_tree(d, [("lib.rs", PROJECT % cmdname)])


def run_doc_case(a):
    cli, drv, idx, seed, via = a
    rnd = random.Random(seed)
    doc, pmode = rand_doc(rnd)
    root = common.scratch("c19d")
    try:
        make_project(os.path.join(root, "src-tauri"), "only_cmd")
        settings = {"project_path": rnd.choice(["./src-tauri", os.path.join(root, "src-tauri"), "src-tauri"]), "output_path": rnd.choice(["./gen", "../web/src/api", os.path.join(root, "o u t"), "gen\\ts", "g\u00e9n/\u65e5\u672c", "it's \"quoted\"/out", "a//b/./c/", "tab\there"]),
                    "validation_library": rnd.choice(["none", "zod"]), "verbose": rnd.choice([None, True, False]), "visualize_deps": rnd.choice([None, True, False]),
                    "include_private": rnd.choice([None, True, False]), "force": rnd.choice([None, True, False]),
                    "type_mappings": rnd.choice([None, {}, {"PathBuf": "string"}, {"DateTime<Utc>": "string", "Uuid": "string", "é": "number"}]),
                    "exclude_patterns": rnd.choice([None, [], ["target/**", "*.bak"]]), "include_patterns": rnd.choice([None, ["src/**/*.rs"]])}
        if pmode == "with-typegen" and idx % 2 == 0:
            # the entry that is already there agrees with what is about to be written in everything but ONE setting
            same = {"projectPath": "./src-tauri" if via == "init" else settings["project_path"], "outputPath": settings["output_path"], "validationLibrary": settings["validation_library"],
                    "verbose": bool(settings["verbose"]), "visualizeDeps": False if via == "init" else bool(settings["visualize_deps"]),
                    "includePrivate": False if via == "init" else bool(settings["include_private"]), "force": False if via == "init" else bool(settings["force"]),
                    "typeMappings": None if via == "init" else settings["type_mappings"], "excludePatterns": None if via == "init" else settings["exclude_patterns"],
                    "includePatterns": None if via == "init" else settings["include_patterns"]}
            flip = ["force", "verbose", "visualizeDeps", "includePrivate"][(idx // 2) % 4]
            same[flip] = not same[flip]
            doc["plugins"]["typegen"] = same
            pmode = "with-typegen-differing-only-in-" + flip
        text = json.dumps(doc, ensure_ascii=rnd.random() < 0.5, indent=rnd.choice([None, 2, 4]))
        # make some integers appear in other lexical forms
        docp = os.path.join(root, "src-tauri", "tauri.conf.json")
        open(docp, "w").write(text)
        before = exact_load(text)
        viol = []
        if via == "init":
            argv = [cli, "tauri-typegen", "init", "-p", "./src-tauri", "-g", settings["output_path"], "-v", settings["validation_library"]]
            if settings["verbose"]:
                argv.append("--verbose")
            # the document it is pointed at, spelled in every way that names that file (no -o: the project's tauri.conf.json)
            spell = [None, "tauri.conf.json", "src-tauri/tauri.conf.json", "./src-tauri/tauri.conf.json", docp, "src-tauri/../src-tauri/tauri.conf.json"][(idx // 3) % 6]
            if spell:
                argv += ["-o", spell]
            r = common.run(argv, cwd=root)
            written = {"project_path": "./src-tauri", "output_path": settings["output_path"], "validation_library": settings["validation_library"],
                       "verbose": bool(settings["verbose"]), "visualize_deps": False, "include_private": False, "force": False,
                       "type_mappings": None, "exclude_patterns": None, "include_patterns": None}
        else:
            sp = os.path.join(root, "settings.json")
            json.dump({k: v for k, v in settings.items()}, open(sp, "w"))
            r = common.run([drv, "save-tauri", sp, docp], cwd=root)
            written = dict(settings)
        if r.timed_out:
            return {"inconclusive": "watchdog"}
        if r.panicked:
            viol.append(("C19 panic-while-writing-config via=%s" % via, r.err[-200:]))
        try:
            after_text = open(docp).read()
            after = exact_load(after_text)
        except (OSError, ValueError) as e:
            viol.append(("C19 document-unreadable-after-write via=%s plugins=%s" % (via, pmode), "after writing, the document is not JSON any more: %s" % e))
            return {"viol": viol, "wit": {"doc": text, "via": via}}
        refused = r.rc != 0 and not r.panicked
        if refused and pmode in ("plugins-not-an-object", "null"):
            # a legitimate refusal: nothing may have changed
            if after_text != text:
                viol.append(("C19 refused-write-changes-document via=%s plugins=%s" % (via, pmode), "the write was refused (exit %s) but the document changed" % r.rc))
            return {"viol": viol, "wit": {"doc": text, "via": via, "settings": settings}, "pmode": pmode}
        if via == "save" and r.rc != 0:
            viol.append(("C19 save-fails via=save plugins=%s" % pmode, "save_to_tauri_config failed: %s" % r.out[-200:]))
        sb, sa = strip_typegen(before), strip_typegen(after)
        if isinstance(sb, dict) and isinstance(sa, dict) and ("plugins" not in sb or sb["plugins"] is None) and sa.get("plugins") == {}:
            # the section had to be created to hold typegen (an absent one, or one that said null)
            sa = {k2: v2 for k2, v2 in sa.items() if k2 != "plugins"}
            sb = {k2: v2 for k2, v2 in sb.items() if k2 != "plugins"}
        d = diff_json(sb, sa)
        if d:
            cls = "integer" if "integer" in d else "number" if "number" in d else "key-lost" if "lost" in d else "key-appeared" if "appeared" in d else "value"
            viol.append(("C19 other-keys-not-preserved via=%s kind=%s plugins=%s" % (via, cls, pmode), "outside plugins.typegen: " + d))
        # (b) round trip through the real reader
        if r.rc == 0 or via == "init":
            rl = common.run([drv, "load-tauri", docp], cwd=root)
            if rl.out.startswith("RESULT some "):
                got = json.loads(rl.out[len("RESULT some "):].strip())
                for k, want in written.items():
                    g = got.get(k)
                    w = want
                    if k in ("verbose", "visualize_deps", "include_private", "force"):
                        g, w = bool(g), bool(w)
                    if k in ("type_mappings", "exclude_patterns", "include_patterns"):
                        g = g or None
                        w = w or None
                    if g != w:
                        viol.append(("C19 round-trip setting=%s via=%s" % (k, via), "wrote %r, read back %r" % (want, got.get(k))))
            elif r.rc == 0:
                viol.append(("C19 round-trip-read-fails via=%s plugins=%s" % (via, pmode), "the write reported success, from_tauri_config on the written document: %s" % rl.out[:200]))
        return {"viol": viol, "wit": {"doc": text, "via": via, "settings": settings}, "pmode": pmode}
    finally:
        common.rmtree(root)


# ---------------------------------------------------------------- precedence matrix
SETTINGS = ("project", "output", "validation", "verbose", "force")


def run_matrix_case(a):
    cli, flags, filed, source, seed, special = a
    """flags / filed: sets of setting names given on the command line / in the configuration file"""
    root = common.scratch("c19m")
    try:
        app = os.path.join(root, "app")
        make_project(os.path.join(app, "src-tauri"), "from_default_project")
        make_project(os.path.join(app, "proj_flag"), "from_flag_project")
        make_project(os.path.join(app, "proj_file"), "from_file_project")
        # expected effective values
        eff_project = "flag" if "project" in flags else "file" if "project" in filed else "default"
        eff_output = "flag" if "output" in flags else "file" if "output" in filed else "default"
        eff_valid = "zod" if "validation" in flags else "zod" if "validation" in filed else "none"
        # flag says zod when given; file says zod when given (and flag absent) — to tell them apart use none/zod asymmetrically:
        flag_valid, file_valid = ("none", "zod") if seed % 2 else ("zod", "none")
        eff_valid = flag_valid if "validation" in flags else file_valid if "validation" in filed else "none"
        eff_verbose = ("verbose" in flags) or ("verbose" in filed)
        eff_force = ("force" in flags) or ("force" in filed)
        outdirs = {"flag": os.path.join(app, "out_flag"), "file": os.path.join(app, "out_file"), "default": os.path.join(app, "src", "generated")}
        cfg_snake = {}
        cfg_camel = {}
        if "project" in filed:
            cfg_snake["project_path"] = cfg_camel["projectPath"] = "./proj_file"
        if "output" in filed:
            cfg_snake["output_path"] = cfg_camel["outputPath"] = "./out_file"
        if "validation" in filed:
            cfg_snake["validation_library"] = cfg_camel["validationLibrary"] = file_valid
        if "verbose" in filed:
            cfg_snake["verbose"] = cfg_camel["verbose"] = True
        if "force" in filed:
            cfg_snake["force"] = cfg_camel["force"] = True
        if special == "file-says-false":
            # explicit false in the file must not beat a flag, and must equal the default otherwise
            cfg_snake.setdefault("verbose", False)
            cfg_camel.setdefault("verbose", False)
            cfg_snake.setdefault("force", False)
            cfg_camel.setdefault("force", False)
        if special in MALFORMED:
            # one optional member of the entry is malformed: the settings next to it still come from the file, or the run is refused — never silently the defaults
            (snake_key, value) = MALFORMED[special]
            cfg_snake[snake_key] = value
            cfg_camel[re.sub(r"_([a-z])", lambda m: m.group(1).upper(), snake_key)] = value
        argv = [cli, "tauri-typegen", "generate"]
        have_file = bool(filed) or special == "file-says-false"
        # every documented spelling of an option: -p X, --project-path X, --project-path=X
        style = seed % 3

        def opt(short, long, value):
            return [short, value] if style == 0 else [long, value] if style == 1 else ["%s=%s" % (long, value)]
        if source == "-c" and have_file:
            json.dump(cfg_snake, open(os.path.join(app, "my.cfg.json"), "w"))
            argv += opt("-c", "--config", "my.cfg.json")
        elif have_file:
            # the document is looked for in the working directory and in ./src-tauri (the standard layout), whatever -p says
            where = os.path.join(app, "src-tauri", "tauri.conf.json") if source == "src-tauri/tauri.conf.json" else os.path.join(app, "tauri.conf.json")
            json.dump({"productName": "x", "plugins": {"typegen": cfg_camel}}, open(where, "w"))
        if "project" in flags:
            argv += opt("-p", "--project-path", "./proj_flag")
        if "output" in flags:
            argv += opt("-o", "--output-path", "./out_flag")
        if "validation" in flags:
            argv += opt("-v", "--validation", flag_valid)
        if "verbose" in flags:
            argv.append("--verbose")
        # first run (never forced) to create a matching cache, then the observed run
        first = list(argv)
        r1 = common.run(first, cwd=app, hash_seed=seed % 89)
        if "force" in flags:
            argv.append("-f" if style == 0 else "--force")
        out = outdirs[eff_output]
        viol = []
        label = "flags=%s file=%s source=%s%s" % ("+".join(sorted(flags)) or "-", "+".join(sorted(filed)) or "-", source, " " + special if special else "")
        if r1.rc != 0 and special in MALFORMED and not any(os.path.exists(d) for d in outdirs.values()):
            return {"viol": [], "label": label + " (refused)"}
        if r1.rc != 0:
            return {"viol": [("C19 precedence run-fails %s" % cell_class(flags, filed, source, special), "%s: exit %s %s" % (label, r1.rc, (r1.err + r1.out)[-200:]))], "label": label}
        before = fsmon.snapshot(app)
        r2 = common.run(argv, cwd=app, hash_seed=seed % 89 + 1)
        after = fsmon.snapshot(app)
        if r2.rc != 0:
            return {"viol": [("C19 precedence run-fails %s" % cell_class(flags, filed, source, special), "%s: exit %s %s" % (label, r2.rc, (r2.err + r2.out)[-200:]))], "label": label}
        # output directory
        got_dirs = [k for k, d in outdirs.items() if os.path.exists(os.path.join(d, "commands.ts"))]
        if got_dirs != [eff_output]:
            viol.append(("C19 precedence setting=output expected=%s %s" % (eff_output, cell_class(flags, filed, source, special)), "%s: files landed in %s, expected only %s" % (label, got_dirs, eff_output)))
        cts = ""
        for k in got_dirs:
            cts = open(os.path.join(outdirs[k], "commands.ts")).read()
        if cts:
            want_cmd = {"flag": "from_flag_project", "file": "from_file_project", "default": "from_default_project"}[eff_project]
            if ("'%s'" % want_cmd) not in cts:
                viol.append(("C19 precedence setting=project expected=%s %s" % (eff_project, cell_class(flags, filed, source, special)), "%s: commands.ts does not invoke %s" % (label, want_cmd)))
            if ("Generator: %s" % eff_valid) not in cts:
                viol.append(("C19 precedence setting=validation expected=%s %s" % (("flag" if "validation" in flags else "file" if "validation" in filed else "default"), cell_class(flags, filed, source, special)),
                             "%s: header is not 'Generator: %s'" % (label, eff_valid)))
        verbose_seen = "Analyzing file" in r2.out or "Parsing file" in r2.out
        if verbose_seen != eff_verbose:
            viol.append(("C19 precedence setting=verbose expected=%s %s" % (eff_verbose, cell_class(flags, filed, source, special)), "%s: verbose markers %s on stdout" % (label, "present" if verbose_seen else "absent")))
        if got_dirs == [eff_output]:
            d = fsmon.diff(before, after)
            rel = os.path.relpath(os.path.join(out, "commands.ts"), app)
            regenerated = rel in d["touched"] or rel in d["modified"]
            if regenerated != eff_force:
                viol.append(("C19 precedence setting=force expected=%s %s" % (eff_force, cell_class(flags, filed, source, special)),
                             "%s: second run %s although force is %s; stdout tail %r" % (label, "regenerated" if regenerated else "did not regenerate", eff_force, r2.out.strip().splitlines()[-1][:50] if r2.out.strip() else "")))
        return {"viol": viol, "label": label}
    finally:
        common.rmtree(root)


MALFORMED = {
    "malformed-typeMappings-value": ("type_mappings", {"Weird": 5}),
    "malformed-typeMappings-shape": ("type_mappings", ["DateTime", "string"]),
    "malformed-excludePatterns-item": ("exclude_patterns", ["target", 7]),
    "malformed-excludePatterns-shape": ("exclude_patterns", "target"),
    "malformed-includePatterns-item": ("include_patterns", [None]),
    "malformed-includePatterns-shape": ("include_patterns", {"a": 1}),
}


def cell_class(flags, filed, source, special):
    return "source=%s%s" % (source if filed or special else "none", " " + special if special else "")


def run_reject_case(a):
    cli, kind, source = a
    # "<kind>+forced-by-flag" / "+forced-by-file": the rejected run is a forced one, and the output directory holds the files and the
    # record of an earlier good run — rejected "before anything is written" covers that record as well
    forced = None
    if "+forced-by-" in kind:
        kind, forced = kind.split("+forced-by-")
    root = common.scratch("c19r")
    try:
        app = os.path.join(root, "app")
        make_project(os.path.join(app, "src-tauri"), "from_default_project")
        if forced:
            r0 = common.run([cli, "tauri-typegen", "generate", "-p", "./src-tauri", "-o", "./gen"], cwd=app)
            if r0.rc != 0 or not os.path.exists(os.path.join(app, "gen", ".typecache")):
                return {"viol": [], "label": "%s via %s (earlier good run failed: inconclusive)" % (kind, source)}
        argv = [cli, "tauri-typegen", "generate"] + (["--force"] if forced == "flag" else [])
        cfg = {}
        if kind == "bad-validation-flag":
            argv += ["-v", "yup"]
        elif kind == "bad-validation-case-variant-flag":
            argv += ["-v", "Zod"]                     # only the exact spellings zod / none are supported
        elif kind == "bad-validation-case-variant-file":
            cfg = {"validation_library": "NONE"}
        elif kind == "bad-validation-case-variant-no-commands":
            argv += ["-v", "ZOD"]
            open(os.path.join(app, "src-tauri", "src", "lib.rs") if os.path.isdir(os.path.join(app, "src-tauri", "src")) else os.path.join(app, "src-tauri", "lib.rs"), "w").write("pub fn helper() {}\n")
        elif kind == "bad-validation-file":
            cfg = {"validation_library": "joi"}
        elif kind == "empty-validation-file":
            cfg = {"validation_library": ""}            # present and not a supported library: the default does not stand in for it
        elif kind == "blank-validation-file":
            cfg = {"validation_library": " "}
        elif kind == "empty-project-file":
            cfg = {"project_path": ""}
        elif kind == "blank-project-file":
            cfg = {"project_path": "  "}
        elif kind == "missing-project-flag":
            argv += ["-p", "./does-not-exist"]
        elif kind == "missing-project-file":
            cfg = {"project_path": "./does-not-exist"}
        elif kind.startswith(("unreachable-project-", "init-unreachable-project-")):
            # a project path that does not exist for a reason other than "no such entry": below a regular file, through a
            # symbolic link that leads to itself, with a component longer than any file name can be
            open(os.path.join(app, "blocker.txt"), "w").write("a regular file")
            os.symlink("loop", os.path.join(app, "loop"))
            bogus = {"below-a-file": "./blocker.txt/src", "through-a-link-loop": "./loop/src", "overlong-component": "./" + "x" * 300}[kind.split("project-")[1].rsplit("-", 1)[0]]
            if kind.startswith("init-"):
                pass
            elif kind.endswith("-flag"):
                argv += ["-p", bogus]
            else:
                cfg = {"project_path": bogus}
        elif kind == "missing-project-default":
            import shutil
            shutil.rmtree(os.path.join(app, "src-tauri"))
        elif kind == "missing-config-file":
            argv += ["-c", "nope.json"]
        elif kind == "file-project-missing-but-flag-valid":
            cfg = {"project_path": "./does-not-exist"}
            argv += ["-p", "./src-tauri"]
        elif kind == "file-validation-bad-but-flag-valid":
            cfg = {"validation_library": "joi"}
            argv += ["-v", "zod"]
        if forced == "file":
            cfg = dict(cfg, force=True)
        if cfg:
            if source == "-c":
                json.dump(cfg, open(os.path.join(app, "c.json"), "w"))
                argv += ["-c", "c.json"]
            else:
                camel = {"validationLibrary": cfg.get("validation_library"), "projectPath": cfg.get("project_path"), "force": cfg.get("force")}
                json.dump({"plugins": {"typegen": {k: v for k, v in camel.items() if v is not None}}}, open(os.path.join(app, "tauri.conf.json"), "w"))
        if kind.startswith("init-"):
            # the same rejections on the `init` entry path, which writes a configuration document before it generates:
            # an invalid setting must be refused before that document (or anything else) is touched
            argv = [cli, "tauri-typegen", "init", "-g", "./gen"]
            json.dump({"productName": "app", "plugins": {"other": {"keep": [1, 2, 3]}}}, open(os.path.join(app, "src-tauri", "tauri.conf.json"), "w"))
            if source == "-c":
                argv += ["-o", "typegen.custom.json"]
            if kind == "init-bad-validation":
                argv += ["-v", "yup"]
            elif kind == "init-bad-validation-case-variant":
                argv += ["-v", "ZOD"]
            elif kind == "init-missing-project":
                argv += ["-p", "./does-not-exist"]
            elif kind.startswith("init-unreachable-project-"):
                argv += ["-p", bogus]
            elif kind == "init-refused-existing-file":
                if source == "-c":
                    open(os.path.join(app, "typegen.custom.json"), "w").write('{"project_path": "./src-tauri", "note": "mine"}')
                else:
                    os.unlink(os.path.join(app, "src-tauri", "tauri.conf.json"))     # default target: tauri.conf.json must already exist
            argv_tail = []
        else:
            argv_tail = ["-o", "./gen"]
        before = fsmon.snapshot(root)
        r = common.run(argv + argv_tail, cwd=app)
        after = fsmon.snapshot(root)
        d = fsmon.diff(before, after)
        viol = []
        changed = d["created"] + d["deleted"] + d["modified"]
        label = "%s via %s%s" % (kind, source, " forced by " + forced if forced else "")
        if forced:
            kind = kind + "+forced-by-" + forced
        if kind.endswith("flag-valid"):
            # flag > file: the invalid file value is overridden, so the run must succeed and write into ./gen
            if r.rc != 0 or not os.path.exists(os.path.join(app, "gen", "commands.ts")):
                viol.append(("C19 precedence flag-does-not-override-invalid-file-value kind=%s source=%s" % (kind, source), "%s: exit %s %s" % (label, r.rc, (r.err + r.out)[-160:])))
            return {"viol": viol, "label": label}
        if r.rc != 1:
            viol.append(("C19 invalid-setting-not-rejected kind=%s source=%s" % (kind, source), "%s: exit status %s (stdout tail %r)" % (label, r.rc, r.out.strip()[-80:])))
        if changed:
            viol.append(("C19 invalid-setting-writes-files kind=%s source=%s" % (kind, source), "%s: the run created/changed %s" % (label, changed[:5])))
        return {"viol": viol, "label": label}
    finally:
        common.rmtree(root)


def run_init_case(a):
    """`init` takes the same settings as flags; the generation it runs at the end must obey them (flag > file > default) whatever
    configuration documents lie around, and the document it writes must carry them"""
    cli, layout, vflag = a
    root = common.scratch("c19i")
    try:
        app = os.path.join(root, "app")
        projrel = "./backend" if layout == "other-project-dir" else "./src-tauri"
        make_project(os.path.join(app, projrel), "init_cmd")
        other = "none" if vflag == "zod" else "zod"
        json.dump({"productName": "app"}, open(os.path.join(app, projrel, "tauri.conf.json"), "w"))
        argv = [cli, "tauri-typegen", "init", "-p", projrel, "-g", "./gen", "-v", vflag]
        written = os.path.join(app, projrel, "tauri.conf.json")
        if layout in ("custom-config-file", "custom-config-file+cwd-document-disagrees"):
            argv += ["-o", "typegen.custom.json"]
            written = os.path.join(app, "typegen.custom.json")
        if layout in ("cwd-document-disagrees", "custom-config-file+cwd-document-disagrees", "other-project-dir"):
            # a configuration document the later generate step would discover from the cwd, saying something else
            json.dump({"productName": "cwd", "plugins": {"typegen": {"projectPath": projrel, "outputPath": "./elsewhere", "validationLibrary": other}}},
                      open(os.path.join(app, "tauri.conf.json"), "w"))
        r = common.run(argv, cwd=app)
        label = "init -v %s, layout %s" % (vflag, layout)
        viol = []
        if r.rc != 0:
            viol.append(("C19 init-fails layout=%s" % layout, "%s: exit %s %s" % (label, r.rc, (r.err + r.out)[-200:])))
            return {"viol": viol, "label": label}
        tp = os.path.join(app, "gen", "types.ts")
        if not os.path.exists(tp):
            where = [os.path.relpath(os.path.join(dp, f), app) for dp, _, fs in os.walk(app) for f in fs if f == "types.ts"]
            viol.append(("C19 precedence setting=output expected=flag entry=init layout=%s" % layout, "%s: -g ./gen given, but types.ts was written to %s" % (label, where)))
        else:
            is_zod = "from 'zod'" in open(tp).read()
            if is_zod != (vflag == "zod"):
                viol.append(("C19 precedence setting=validation expected=flag entry=init layout=%s" % layout,
                             "%s: the bindings generated by init are %s" % (label, "Zod schemas" if is_zod else "plain TypeScript")))
        try:
            doc = json.load(open(written))
            lib = doc.get("validation_library") if written.endswith("custom.json") else doc.get("plugins", {}).get("typegen", {}).get("validationLibrary")
            if lib != vflag:
                viol.append(("C19 init-writes-other-setting layout=%s" % layout, "%s: the written document says validation library %r" % (label, lib)))
        except (OSError, ValueError) as e:
            viol.append(("C19 init-document-unreadable layout=%s" % layout, "%s: %s" % (label, e)))
        return {"viol": viol, "label": label}
    finally:
        common.rmtree(root)


BUILD_KINDS = ["defaults-only", "tauri-section", "standalone-typegen.json", "tauri-without-section+standalone", "tauri-section-beats-defaults-in-every-setting",
               "bad-validation-in-tauri-section", "bad-validation-in-standalone", "missing-project-in-tauri-section", "missing-project-in-standalone",
               "bad-validation-case-variant-in-tauri-section"]


def run_build_case(a):
    """the build-script entry path (BuildSystem::generate_at_build_time, run in the project root) has no flags: file over default, a
    tauri.conf.json section or a stand-alone typegen.json; invalid settings are rejected before anything is written there as well"""
    drv, kind = a
    root = common.scratch("c19b")
    try:
        app = os.path.join(root, "app")
        make_project(os.path.join(app, "src-tauri"), "from_default_project")
        make_project(os.path.join(app, "backend"), "from_configured_project")
        want = {"project": "from_default_project", "out": "src/generated", "zod": False}
        tauri = {"productName": "app", "plugins": {"other": {"keep": True}}}
        standalone = None
        if kind in ("tauri-section", "tauri-section-beats-defaults-in-every-setting"):
            tauri["plugins"]["typegen"] = {"projectPath": "./backend", "outputPath": "./bindings", "validationLibrary": "zod"}
            want = {"project": "from_configured_project", "out": "bindings", "zod": True}
        elif kind == "standalone-typegen.json":
            tauri = None
            standalone = {"project_path": "./backend", "output_path": "./bindings", "validation_library": "zod"}
            want = {"project": "from_configured_project", "out": "bindings", "zod": True}
        elif kind == "tauri-without-section+standalone":
            standalone = {"project_path": "./backend", "output_path": "./bindings", "validation_library": "zod"}
            want = {"project": "from_configured_project", "out": "bindings", "zod": True}
        elif kind.startswith("bad-validation") and kind.endswith("tauri-section"):
            tauri["plugins"]["typegen"] = {"projectPath": "./backend", "outputPath": "./bindings", "validationLibrary": "ZOD" if "case-variant" in kind else "yup"}
            want = None
        elif kind == "bad-validation-in-standalone":
            standalone = {"project_path": "./backend", "output_path": "./bindings", "validation_library": "joi"}
            want = None
        elif kind == "missing-project-in-tauri-section":
            tauri["plugins"]["typegen"] = {"projectPath": "./does-not-exist", "outputPath": "./bindings", "validationLibrary": "zod"}
            want = None
        elif kind == "missing-project-in-standalone":
            standalone = {"project_path": "./does-not-exist", "output_path": "./bindings", "validation_library": "none"}
            want = None
        if tauri is not None:
            json.dump(tauri, open(os.path.join(app, "tauri.conf.json"), "w"))
        if standalone is not None:
            json.dump(standalone, open(os.path.join(app, "typegen.json"), "w"))
        before = fsmon.snapshot(root)
        r = common.run([drv, "build"], cwd=app, timeout=120)
        after = fsmon.snapshot(root)
        d = fsmon.diff(before, after)
        viol = []
        label = "build-script run, %s" % kind
        failed = r.rc != 0 or "RESULT err" in r.out
        if want is None:
            if not failed:
                viol.append(("C19 invalid-setting-not-rejected kind=%s entry=build-script" % kind, "%s: the run reports success (%r)" % (label, (r.out + r.err).strip()[-120:])))
            changed = d["created"] + d["deleted"] + d["modified"]
            if changed:
                viol.append(("C19 invalid-setting-writes-files kind=%s entry=build-script" % kind, "%s: the run created/changed %s" % (label, changed[:5])))
            return {"viol": viol, "label": label}
        if failed:
            viol.append(("C19 build-script-run-fails kind=%s" % kind, "%s: %s" % (label, (r.out + r.err).strip()[-200:])))
            return {"viol": viol, "label": label}
        where = sorted(os.path.relpath(dp, app) for dp, _, fs in os.walk(app) for f in fs if f == "commands.ts")
        if where != [want["out"]]:
            viol.append(("C19 precedence setting=output expected=%s entry=build-script kind=%s" % ("file" if want["out"] == "bindings" else "default", kind), "%s: commands.ts written to %s, expected %s" % (label, where, want["out"])))
        else:
            ct = open(os.path.join(app, want["out"], "commands.ts")).read()
            if want["project"] not in ct:
                viol.append(("C19 precedence setting=project expected=%s entry=build-script kind=%s" % ("file" if want["zod"] else "default", kind), "%s: the bindings do not come from the %s project" % (label, want["project"])))
            is_zod = "from 'zod'" in open(os.path.join(app, want["out"], "types.ts")).read()
            if is_zod != want["zod"]:
                viol.append(("C19 precedence setting=validation expected=%s entry=build-script kind=%s" % ("file" if want["zod"] else "default", kind), "%s: bindings are %s" % (label, "Zod schemas" if is_zod else "plain TypeScript")))
        return {"viol": viol, "label": label}
    finally:
        common.rmtree(root)


def run(tier):
    v = Verdict("C19", "exploration", tier)
    cli = common.build_cli()
    drv = common.build_driver()
    base = common.seed() * 19000013
    ndocs = 300 if tier == "quick" else 40000
    djobs = [(cli, drv, i, base + i, "init" if i % 3 == 0 else "save") for i in range(ndocs)]
    for (job, r) in zip(djobs, common.pmap(run_doc_case, djobs, chunksize=4)):
        if "inconclusive" in r:
            v.inconclusive.append("watchdog")
            continue
        v.case(("doc", job[3]), nontrivial=True, sample={"kind": "document", "via": job[4], "plugins_section": r.get("pmode"), "doc_head": r["wit"]["doc"][:120]} if len(v.samples) < 3 else None)
        v.count("documents_%s" % job[4])
        for (sig, what) in r["viol"]:
            v.violation(sig, what, r["wit"])
    # precedence matrix: all 2^5 flag subsets x (file absent | file with the same settings | file with all settings) x two sources
    mjobs = []
    k = 0
    subsets = [frozenset(c) for n in range(6) for c in itertools.combinations(SETTINGS, n)]
    for flags in subsets:
        for filed in (frozenset(), flags, frozenset(SETTINGS), frozenset(SETTINGS) - flags):
            for source in ("tauri.conf.json", "-c", "src-tauri/tauri.conf.json"):
                if not filed and source != "tauri.conf.json":
                    continue
                mjobs.append((cli, flags, filed, source, base + k, None))
                k += 1
        mjobs.append((cli, flags, frozenset(), "tauri.conf.json", base + k, "file-says-false"))
        k += 1
        mjobs.append((cli, flags, frozenset(), "-c", base + k, "file-says-false"))
        k += 1
    for (j, special) in enumerate(sorted(MALFORMED)):
        for source in ("tauri.conf.json", "-c", "src-tauri/tauri.conf.json"):
            for flags in (frozenset(), subsets[(base + j) % len(subsets)]):
                mjobs.append((cli, flags, frozenset(SETTINGS) - flags, source, base + k, special))
                k += 1
    cells = set()
    for (job, r) in zip(mjobs, common.pmap(run_matrix_case, mjobs, chunksize=2)):
        v.case(("matrix", tuple(sorted(job[1])), tuple(sorted(job[2])), job[3], job[5]), nontrivial=bool(job[1] or job[2]),
               sample={"kind": "precedence", "cell": r["label"]} if len(v.samples) < 6 else None)
        cells.add((job[1], job[2], job[3], job[5]))
        v.count("precedence_cells")
        for (sig, what) in r["viol"]:
            v.violation(sig, what, {"flags": sorted(job[1]), "file": sorted(job[2]), "source": job[3], "special": job[5]})
    rjobs = [(cli, kind, source) for kind in ("file-project-missing-but-flag-valid", "file-validation-bad-but-flag-valid") for source in ("tauri.conf.json", "-c")]
    rjobs += [(cli, kind, source) for kind in ("bad-validation-flag", "bad-validation-file", "missing-project-flag", "missing-project-file", "missing-project-default", "missing-config-file")
             for source in ("tauri.conf.json", "-c")]
    rjobs += [(cli, kind, source) for kind in ("empty-validation-file", "blank-validation-file", "empty-project-file", "blank-project-file") for source in ("tauri.conf.json", "-c")]
    rjobs += [(cli, kind, source) for kind in ("init-bad-validation", "init-bad-validation-case-variant", "init-missing-project", "init-refused-existing-file") for source in ("tauri.conf.json", "-c")]
    rjobs += [(cli, "%sunreachable-project-%s-%s" % (pre, why, via), source) for why in ("below-a-file", "through-a-link-loop", "overlong-component")
              for (pre, via) in (("", "flag"), ("", "file"), ("init-", "flag")) for source in ("tauri.conf.json", "-c")]
    rjobs += [(cli, "%s+forced-by-%s" % (kind, how), source) for kind in ("bad-validation-flag", "bad-validation-file", "missing-project-flag", "missing-project-file")
              for how in ("flag", "file") for source in ("tauri.conf.json", "-c")]
    rjobs += [(cli, kind, source) for kind in ("bad-validation-case-variant-flag", "bad-validation-case-variant-file", "bad-validation-case-variant-no-commands") for source in ("tauri.conf.json", "-c")]
    for (job, r) in zip(rjobs, common.pmap(run_reject_case, rjobs)):
        v.case(("reject", job[1], job[2]), nontrivial=True, sample={"kind": "rejection", "case": r["label"]} if len(v.samples) < 8 else None)
        v.count("rejection_cases")
        for (sig, what) in r["viol"]:
            v.violation(sig, what, {"kind": job[1], "source": job[2]})
    ijobs = [(cli, layout, vflag) for layout in ("standard", "other-project-dir", "custom-config-file", "cwd-document-disagrees", "custom-config-file+cwd-document-disagrees")
             for vflag in ("zod", "none")]
    for (job, r) in zip(ijobs, common.pmap(run_init_case, ijobs)):
        v.case(("init", job[1], job[2]), nontrivial=True, sample={"kind": "init-precedence", "case": r["label"]} if len(v.samples) < 10 else None)
        v.count("init_precedence_cases")
        for (sig, what) in r["viol"]:
            v.violation(sig, what, {"layout": job[1], "flag": job[2]})
    bjobs = [(drv, kind) for kind in BUILD_KINDS]
    for (job, r) in zip(bjobs, common.pmap(run_build_case, bjobs)):
        v.case(("build-script", job[1]), nontrivial=True)
        v.count("build_script_configuration_cases")
        for (sig, what) in r["viol"]:
            v.violation(sig, what, {"entry": "build-script", "kind": job[1]})
    v.extra["precedence_matrix_cells"] = len(cells)
    rule = ("cases are (i) generated JSON documents (nesting <= 6, Unicode/escaped strings, integers over the i64/u64 range, decimals/exponents, 7 shapes "
            "of the plugins section) written through `init` or save_to_tauri_config and re-read exactly; (ii) every cell of the 2^5 flag-subset x "
            "file-content x config-source precedence matrix, observed through effects; (iii) rejection cases; all distinct, non-trivial unless "
            "neither flags nor file are present")
    return v.finish(rule, assumptions=["integers outside i64/u64 and duplicate keys are not generated; key order is not a value (DESIGN 4.2)",
                                       "the ten persisted fields are the settings that 'were written'; None and false are the same effective boolean"])
