"""C16 — only the tool's own files in the output directory are ever written or removed.
Filesystem monitor: recursive snapshot of a whole sandbox (sources, output directory pre-populated with foreign files and
near-miss names, sibling files, config files) before/after every run + strace classification of mutating syscalls."""
import json
import os
import random

from .. import common, compound, fsmon, proj
from ..common import Verdict

RESERVED_BASE = {"types", "commands", "events", "index", "schemas", "models", "bindings"}


def is_reserved(name):
    if name in (".typecache", "dependency-graph.txt", "dependency-graph.dot"):
        return True
    for ext in (".d.ts", ".ts"):
        if name.endswith(ext) and name[: -len(ext)] in RESERVED_BASE:
            return True
    return name.startswith("generated_") or "_generated" in name


FOREIGN = ["types.tsx", "mytypes.ts", "types.ts.bak", "Types.ts", "generated.ts", ".typecache.old", "index.js", "README.md", ".gitignore", "package.json",
           "types", "index", "models", "commands", "bindings", "schemas", "events", "types.ts~", "types.js", "index.mjs", "custom.ts", "helpers/util.ts",
           "sub/types.ts", "sub/generated_x.ts", "sub/.typecache", "dependency-graph.svg", "dependency-graph", "typecache", ".typecache.lock", "events.tsx",
           "commands.ts.orig", "my_events.ts", "api.ts", "node_modules/pkg/index.ts", "generatedx.ts", "x.generated.ts", ".write_test", ".write_test2", "write_test",
           "tsconfig.json", "index.d.mts", "types.d.tsx", ".hidden/commands.ts", "bindings/index.ts",
           ".typecache.unreadable", ".typecache.bak", ".typecache.corrupt", ".typecache~", "types.ts.unreadable", ".typecache.tmp"]
RESERVED_STALE = ["schemas.ts", "models.ts", "bindings.d.ts", "generated_old.ts", "foo_generated.ts", "events.ts", "types.d.ts", "index.d.ts"]


def allowed(rel, outrel, config_rel=None, preexisting=()):
    """may the path (relative to the sandbox root) be created / changed / deleted by a run?"""
    rel = os.path.normpath(rel)
    outrel = os.path.normpath(outrel)
    if config_rel and rel == os.path.normpath(config_rel):
        return True
    if rel == outrel or outrel.startswith(rel + os.sep):
        return True   # creating the output directory and its missing parents
    d, name = os.path.split(rel)
    if os.path.normpath(d) != outrel:
        return False
    if name == ".write_test":
        return rel not in preexisting   # the documented probe: only if it was not somebody's file
    return is_reserved(name)


def run_case(a):
    cli, drv, idx, seed, mode = a
    rnd = random.Random(seed)
    files = compound.gen(rnd, idx, nfiles=rnd.randint(1, 3), ntypes=rnd.randint(2, 4), ncmds=rnd.randint(1, 4))
    if idx % 8 == 7:
        files = compound.events_only(files, idx)
    root = common.scratch("c16")
    viol = []
    st = {"runs": 0, "paths_snapshotted": 0, "foreign_planted": 0, "mutating_syscalls_classified": 0}
    try:
        layout = rnd.choice(["inside", "beside", "equal", "deep", "dotdot", "default", "dotted-fresh", "dotted-fresh"])
        srcrel = "app/src-tauri"
        outrel = {"inside": "app/src-tauri/gen", "beside": "app/generated", "equal": "app/src-tauri", "deep": "app/web/src/lib/gen/api", "dotdot": "app/src-tauri/../bindings",
                  "default": "app/src/generated",              # "default": what the flags' built-in defaults spell, relative to the cwd app/
                  "dotted-fresh": "app/web/" + rnd.choice(["bindings.v2", "api.gen", "out.d", "gen.ts", "types.ts.d"])}[layout]   # a directory name that looks like a file name
        outnorm = os.path.normpath(outrel)
        src = os.path.join(root, srcrel)
        common.write_tree(src, compound.render(files))
        # foreign material everywhere
        common.write_tree(root, [("app/package.json", "{}"), ("app/README.md", "readme"), ("sibling/types.ts", "// not ours"), ("app/src-tauri/Cargo.toml", "[package]\nname='x'\n"),
                                 ("app/src-tauri/build.rs", "fn main(){}"), ("types.ts", "// root level foreign")])
        planted = []
        if layout == "dotted-fresh":
            # the output directory does not exist yet; its PARENT holds hand-written files with the generator's file names
            common.write_tree(os.path.join(root, "app/web"), [("types.ts", "// hand-written, not ours"), ("index.ts", "// hand-written"), ("commands.ts", "// hand-written"), ("notes.md", "x")])
        elif rnd.random() < 0.85:
            for f in rnd.sample(FOREIGN, rnd.randint(3, 14)):
                p = os.path.join(root, outnorm, f)
                if os.path.exists(p):
                    continue
                try:
                    common.write_tree(os.path.join(root, outnorm), [(f, "foreign content of %s" % f)])
                except OSError:
                    continue      # e.g. a planted file `bindings` and a planted directory `bindings/` exclude each other
                planted.append(os.path.join(outnorm, f))
            if rnd.random() < 0.4:
                try:
                    os.symlink(os.path.join(root, "app/README.md"), os.path.join(root, outnorm, "link_to_readme.ts"))
                    os.symlink(os.path.join(root, "sibling"), os.path.join(root, outnorm, "linkdir"))
                except OSError:
                    pass
            for f in rnd.sample(RESERVED_STALE, rnd.randint(0, 3)):
                try:
                    common.write_tree(os.path.join(root, outnorm), [(f, "// stale generated file")])
                except OSError:
                    pass
            if idx % 3 == 0 and not os.path.isdir(os.path.join(root, outnorm, "index.ts")):
                # an index.ts somebody extended by hand: it re-exports hand-written neighbours, a file in a subdirectory and one outside
                # the directory. The file itself is the tool's to replace; what it mentions is not the tool's
                hand = [p for p in planted if p.endswith(".ts") and os.path.dirname(p) == outnorm][:3]
                lines = ["export * from './types';", "export * from './commands';"] + ["export * from './%s';" % os.path.basename(p)[:-3] for p in hand]
                lines += ["export * from './helpers/util';", "export * from '../shared_api';", "export { x } from \"./custom\";"]
                try:
                    common.write_tree(os.path.join(root, outnorm), [("index.ts", "\n".join(lines) + "\n")])
                    common.write_tree(os.path.join(root, os.path.dirname(outnorm)), [("shared_api.ts", "// foreign, next to the output directory")])
                except OSError:
                    pass
        if idx % 5 == 3 and layout != "equal":
            # a DIRECTORY that bears the name of a file the run writes, with somebody's files in it: the run cannot write that file (and
            # may say so); what the directory holds is not the tool's
            dname = ["events.ts", "index.ts", "commands.ts", "types.ts"][(idx // 5) % 4]
            dpath = os.path.join(root, outnorm, dname)
            if not os.path.lexists(dpath):
                try:
                    common.write_tree(dpath, [("NOTES.md", "notes kept next to the bindings"), ("drafts/handwritten.md", "draft")])
                    planted += [os.path.join(outnorm, dname, "NOTES.md"), os.path.join(outnorm, dname, "drafts/handwritten.md")]
                except OSError:
                    pass
        if idx % 6 == 2 and os.path.isdir(os.path.join(root, outnorm)) and not os.path.lexists(os.path.join(root, outnorm, ".typecache")):
            # the cache record of an earlier run is there but unusable (cut short, another version's shape, not JSON at all): the
            # tool's own file to replace — and nothing is to appear beside it under another name
            open(os.path.join(root, outnorm, ".typecache"), "w").write(['{"version":1,"commands_ha', "{}", "not json at all", '{"version":"one"}', "[]", ""][(idx // 6) % 6])
            for extra in (".typecache.unreadable", ".typecache.bak"):
                ep = os.path.join(root, outnorm, extra)
                if not os.path.lexists(ep):
                    open(ep, "w").write("a note somebody keeps here: %s" % extra)
                    planted.append(os.path.join(outnorm, extra))
        if idx % 4 == 2 and os.path.isdir(os.path.join(root, outnorm)):
            # somebody's copies of generated files under names of their own (a snapshot kept for comparison, a file forked from the
            # bindings): they carry the tool's header, they are not the tool's files
            hdr_ = ("/**\n * Auto-generated TypeScript bindings for Tauri commands\n * Generated by tauri-typegen v0.4.2\n * Generated at: 2026-01-01T00:00:00.000000000+00:00\n"
                    " * Generator: none\n *\n * Do not edit manually - regenerate using: cargo tauri-typegen generate\n */\n\nexport interface Kept { a: number }\n")
            for fn_ in ("api-snapshot.ts", "forked-bindings.ts", "snapshots/types.2025.ts"):
                fp_ = os.path.join(root, outnorm, fn_)
                if not os.path.lexists(fp_):
                    try:
                        common.write_tree(os.path.join(root, outnorm), [(fn_, hdr_)])
                        planted.append(os.path.join(outnorm, fn_))
                    except OSError:
                        pass
        st["foreign_planted"] = len(planted)
        preexisting = {p for p in planted}
        path = rnd.choice(["cli", "cli-rel", "cli-rel-deep", "build", "build-member", "init", "cli-config", "init-custom", "init-dotslash", "cli-flags-over-config", "cli-flags-over-config",
                           "init-backend"])
        if path == "init-backend":
            # the Rust project lives in ./backend (not ./src-tauri), with its tauri.conf.json next to it: init is pointed there with -p
            common.write_tree(os.path.join(root, "app/backend"), compound.render(files))
            json.dump({"productName": "backend", "plugins": {"shell": {"open": True}}}, open(os.path.join(root, "app/backend/tauri.conf.json"), "w"))
        if path == "build-member":
            # the build script of a workspace member: its working directory has no tauri.conf.json of its own, the one that is found
            # belongs to an ancestor; the settings' relative paths are relative to the working directory. The directory that the same
            # relative output path names from the ANCESTOR holds look-alike files that are nobody's business
            member = os.path.join(root, "app", "member")
            os.makedirs(member, exist_ok=True)
            shadow = os.path.normpath(os.path.join(root, "app", os.path.relpath(os.path.join(root, outrel), member)))
            if shadow.startswith(root + os.sep) and os.path.normpath(os.path.join(root, outrel)) != shadow:
                common.write_tree(shadow, [("models.ts", "// foreign"), ("bindings.d.ts", "// foreign"), ("generated_notes.ts", "// foreign"), ("types.ts", "// foreign types"),
                                           ("commands.ts", "// foreign"), ("index.ts", "// foreign")])
        if path == "cli-flags-over-config":
            # the configuration file names ANOTHER output directory (with foreign files in it); the flags name the real one, so
            # the configured output directory is the flags' (flag > file) and the file's directory must stay untouched
            common.write_tree(os.path.join(root, "app/decoy_out"), [("types.ts", "// foreign: not the configured directory"), ("index.ts", "// foreign"), ("notes.md", "x"),
                                                                    (".typecache", '{"version":1,"note":"the record of a run that had this directory as its output"}')])
        if layout != "default":
            # the directory the built-in defaults name holds the record of an earlier run; this run's output directory is another one
            common.write_tree(os.path.join(root, "app/src/generated"), [(".typecache", '{"version":1,"note":"left by an earlier run with the default output path"}'), ("types.ts", "// earlier run")])
        forced_later = idx % 3 == 1
        steps = rnd.randint(2, 3)
        # half of the scenarios keep sources and settings as they are between runs: the later runs are then answered from the cache,
        # which is a code path of its own (it, too, has only the tool's files to touch)
        vary_cfg = idx % 2 == 0
        wit = {"layout": layout, "path": path, "files": [[p, t] for p, t in compound.render(files)], "planted": planted, "mode": mode}

        def do_run(step):
            cwd = os.path.join(root, "app")
            cfgrel = None
            if path == "cli":
                argv = [cli, "tauri-typegen", "generate", "-p", src, "-o", os.path.join(root, outrel), "-v", mode]
            elif path == "cli-rel":
                argv = [cli, "tauri-typegen", "generate", "-p", os.path.relpath(src, cwd), "-o", os.path.relpath(os.path.join(root, outrel), cwd), "-v", mode]
            elif path == "cli-rel-deep":
                # run from a directory several levels down: the relative paths start with two or three `..`
                cwd = os.path.join(root, "app", "tools", "scripts", "gen")
                os.makedirs(cwd, exist_ok=True)
                argv = [cli, "tauri-typegen", "generate", "-p", os.path.relpath(src, cwd), "-o", os.path.relpath(os.path.join(root, outrel), cwd), "-v", mode]
            elif path == "cli-config":
                cfgrel = "app/typegen.custom.json"
                json.dump({"project_path": src, "output_path": os.path.join(root, outrel), "validation_library": mode, "visualize_deps": step == 1 and vary_cfg},
                          open(os.path.join(root, cfgrel), "w"))
                argv = [cli, "tauri-typegen", "generate", "-c", os.path.join(root, cfgrel)] + (["--force"] if step == 2 and vary_cfg else [])
            elif path == "cli-flags-over-config":
                other = "zod" if mode == "none" else "none"
                decoy_cfg = {"project_path": src, "output_path": os.path.join(root, "app/decoy_out"), "validation_library": other}
                spelled_out = "./src/generated" if layout == "default" else os.path.relpath(os.path.join(root, outrel), cwd)
                if idx % 2 == 0:
                    json.dump(decoy_cfg, open(os.path.join(root, "app/typegen.decoy.json"), "w"))
                    argv = [cli, "tauri-typegen", "generate", "-c", "typegen.decoy.json", "-p", "./src-tauri", "-o", spelled_out, "-v", mode]
                else:
                    json.dump({"productName": "x", "plugins": {"typegen": {"projectPath": "./src-tauri", "outputPath": "./decoy_out", "validationLibrary": other}}},
                              open(os.path.join(root, "app/tauri.conf.json"), "w"))
                    argv = [cli, "tauri-typegen", "generate", "-p", "./src-tauri", "-o", spelled_out, "-v", mode]
                if forced_later and step >= 1:
                    argv.append("--force")
            elif path == "init":
                cfgrel = "app/src-tauri/tauri.conf.json"
                if not os.path.exists(os.path.join(root, cfgrel)):
                    json.dump({"productName": "x", "build": {"frontendDist": "../dist"}, "plugins": {"shell": {"open": True}}}, open(os.path.join(root, cfgrel), "w"))
                argv = [cli, "tauri-typegen", "init", "-p", os.path.relpath(src, cwd), "-g", os.path.relpath(os.path.join(root, outrel), cwd), "-v", mode]
            elif path == "init-backend":
                cfgrel = "app/backend/tauri.conf.json"
                argv = [cli, "tauri-typegen", "init", "-p", "./backend", "-g", os.path.relpath(os.path.join(root, outrel), cwd), "-v", mode]
            elif path == "init-dotslash":
                # init pointed, with an explicit ./, at the tauri.conf.json of the working directory while the project directory has
                # one of its own: only the one it was pointed at may change
                cfgrel = "app/tauri.conf.json"
                for rel in ("app/tauri.conf.json", "app/src-tauri/tauri.conf.json"):
                    if not os.path.exists(os.path.join(root, rel)):
                        json.dump({"productName": rel, "plugins": {"shell": {"open": True}}}, open(os.path.join(root, rel), "w"))
                argv = [cli, "tauri-typegen", "init", "-p", "./src-tauri", "-g", os.path.relpath(os.path.join(root, outrel), cwd), "-v", mode, "-o", "./tauri.conf.json"]
            elif path == "init-custom":
                # init pointed at a stand-alone configuration file: that file (and only that) may be created / replaced
                cfgrel = "app/config/typegen.custom.json"
                os.makedirs(os.path.join(root, "app/config"), exist_ok=True)
                argv = [cli, "tauri-typegen", "init", "-p", os.path.relpath(src, cwd), "-g", os.path.relpath(os.path.join(root, outrel), cwd), "-v", mode,
                        "-o", "config/typegen.custom.json", "--force"]
            elif path == "build-member":
                cfgrel = None
                cwd = os.path.join(root, "app", "member")
                proj.write_tauri_conf(os.path.join(root, "app"), os.path.relpath(src, cwd), os.path.relpath(os.path.join(root, outrel), cwd), mode, {"visualizeDeps": step == 1 and vary_cfg})
                argv = [drv, "build"]
            else:
                cfgrel = None
                proj.write_tauri_conf(cwd, os.path.relpath(src, cwd), os.path.relpath(os.path.join(root, outrel), cwd), mode, {"visualizeDeps": step == 1 and vary_cfg})
                argv = [drv, "build"]
            if path in ("cli", "cli-rel", "cli-rel-deep") and forced_later and step >= 1:
                argv.append("--force")
            if path in ("cli", "cli-rel", "cli-config", "cli-flags-over-config") and idx % 4 == 1 and step == steps - 1:
                # the last run of the sequence fails part-way: a file-size limit of 1 KiB cuts the first larger write short (whichever
                # file that is). A failed run, too, has only the tool's own files to touch
                if "--force" not in argv:
                    argv.append("--force")
                argv = ["bash", "-c", 'trap "" XFSZ; ulimit -f 1; exec "$@"', "bash"] + argv
                st["runs_cut_short"] = st.get("runs_cut_short", 0) + 1
            before = fsmon.snapshot(root)
            st["paths_snapshotted"] += len(before)
            r, ev = fsmon.run_traced(argv, cwd=cwd, hash_seed=seed % 500 + step)
            st["runs"] += 1
            after = fsmon.snapshot(root)
            if r.timed_out:
                return "watchdog"
            d = fsmon.diff(before, after)
            label = "%s step %d (rc=%s)" % (path, step, r.rc)
            for kind in ("created", "deleted", "modified", "touched"):
                for rel in d[kind]:
                    if path in ("build", "build-member") and rel == "app/tauri.conf.json":
                        continue   # written by the harness itself before the run (outside the snapshot window) — never by the tool
                    if allowed(rel, outrel, cfgrel if path in ("init", "init-custom", "init-dotslash", "init-backend") else None, preexisting):
                        continue
                    viol.append(("C16 %s %s path=%s" % (kind, classify(rel, outnorm, srcrel), path.split("-")[0]),
                                 "%s: %s %s (layout %s, output %s)" % (label, kind, rel, layout, outrel), dict(wit, step=step)))
            # syscall level: mutating calls under the sandbox on paths that are not allowed (catches write-then-restore)
            for e in fsmon.mutating_on(ev, root):
                if not e["ok"] or e["call"] in ("mkdir", "mkdirat"):
                    continue
                st["mutating_syscalls_classified"] += 1
                for p in (e["path"], e["path2"]):
                    if not p or not p.startswith(root + os.sep):
                        continue
                    rel = os.path.relpath(p, root)
                    if allowed(rel, outrel, cfgrel if path in ("init", "init-custom", "init-dotslash", "init-backend") else None, preexisting):
                        continue
                    if "O_CREAT" not in e["flags"] and e["call"] in ("openat", "open") and "O_WRONLY" not in e["flags"] and "O_RDWR" not in e["flags"] and "O_TRUNC" not in e["flags"]:
                        continue
                    viol.append(("C16 syscall-%s %s path=%s" % (e["call"], classify(rel, outnorm, srcrel), path.split("-")[0]),
                                 "%s: %s" % (label, e["raw"]), dict(wit, step=step)))
            return None

        for step in range(steps):
            if step == 1 and vary_cfg and rnd.random() < 0.3:
                # remove all commands: the next run finds nothing to generate
                common.write_tree(src, [(p, "// emptied\npub fn helper() {}\n") for (p, _t) in compound.render(files)])
            elif step == 2 and vary_cfg and rnd.random() < 0.5:
                mode = "zod" if mode == "none" else "none"
            err = do_run(step)
            if err:
                return {"inconclusive": err}
        return {"viol": viol, "st": st, "layout": layout, "path": path}
    finally:
        common.rmtree(root)


RO_ROOT = ["unshare", "-m", "-r", "bash", "-c", 'mount --bind / / 2>/dev/null; mount -o remount,bind,ro / 2>/dev/null; exec "$@"', "bash"]


def run_degenerate_output(a):
    """an output path that is empty (or only dots / slashes of the current directory): the output directory is then the working
    directory, or the setting is refused — but nothing is written anywhere else. The run happens in a private mount namespace whose
    root file system is read-only (the scratch area under /dev/shm stays writable), so a write that strays outside fails loudly
    instead of littering the machine."""
    cli, drv, spelling, via, mode = a
    root = common.scratch("c16e")
    try:
        probe = common.run(RO_ROOT + ["true"], cwd=root)
        if probe.rc != 0:
            return {"skip": "no private mount namespace available"}
        src = os.path.join(root, "proj", "src-tauri")
        common.write_tree(src, [("lib.rs", "#[tauri::command]\npub fn only_cmd(id: i32) -> i32 { id }\n")])
        cwd = os.path.join(root, "proj", "work")
        os.makedirs(cwd)
        open(os.path.join(cwd, "keep.txt"), "w").write("foreign")
        if via == "config-file":
            json.dump({"project_path": src, "output_path": spelling, "validation_library": mode}, open(os.path.join(cwd, "cfg.json"), "w"))
            argv = [cli, "tauri-typegen", "generate", "-c", "cfg.json"]
        elif via == "tauri.conf.json":
            json.dump({"productName": "x", "plugins": {"typegen": {"projectPath": src, "outputPath": spelling, "validationLibrary": mode}}}, open(os.path.join(cwd, "tauri.conf.json"), "w"))
            argv = [cli, "tauri-typegen", "generate"]
        else:
            json.dump({"productName": "x", "plugins": {"typegen": {"projectPath": src, "outputPath": spelling, "validationLibrary": mode}}}, open(os.path.join(cwd, "tauri.conf.json"), "w"))
            argv = [drv, "build"]
        before = fsmon.snapshot(root)
        r = common.run(RO_ROOT + argv, cwd=cwd)
        after = fsmon.snapshot(root)
        if r.timed_out:
            return {"inconclusive": "watchdog"}
        viol = []
        label = "output path %r via %s" % (spelling, via)
        text = r.err + r.out
        if "Read-only file system" in text or "os error 30" in text:
            viol.append(("C16 write-outside-output-dir degenerate-output-path via=%s" % via, "%s: the run tried to write outside the writable scratch area: %s" % (label, text.strip()[-160:])))
        d = fsmon.diff(before, after)
        for kind in ("created", "deleted", "modified"):
            for rel in d[kind]:
                inside = os.path.normpath(os.path.join(root, rel)).startswith(cwd + os.sep)
                name = os.path.basename(rel)
                ok = inside and os.path.dirname(os.path.normpath(os.path.join(root, rel))) == cwd and (name.split(".")[0] in RESERVED_BASE or name == ".typecache" or name == ".write_test")
                if via == "build-script" and rel == "proj/work/tauri.conf.json":
                    ok = True
                if not ok:
                    viol.append(("C16 %s outside-output-dir degenerate-output-path via=%s" % (kind, via), "%s (cwd proj/work): %s %s" % (label, kind, rel)))
        return {"viol": viol, "rc": r.rc, "label": label}
    finally:
        common.rmtree(root)


def classify(rel, outnorm, srcrel):
    d, name = os.path.split(os.path.normpath(rel))
    if os.path.normpath(d) == outnorm:
        if name == ".write_test":
            return "pre-existing-.write_test-in-output-dir"
        base = name.split(".")[0]
        if base in RESERVED_BASE or "typecache" in name or name.startswith("dependency-graph") or "generated" in name:
            return "near-miss-name-in-output-dir(%s)" % ("no-extension" if "." not in name else "other-extension")
        return "foreign-file-in-output-dir"
    if os.path.normpath(rel).startswith(outnorm + os.sep):
        return "subdirectory-of-output-dir"
    if os.path.normpath(rel).startswith(os.path.normpath(srcrel) + os.sep):
        return "project-source"
    return "outside-output-dir"


def run(tier):
    v = Verdict("C16", "exploration", tier)
    cli = common.build_cli()
    drv = common.build_driver()
    n = 300 if tier == "quick" else 15000
    base = common.seed() * 16000057
    jobs = [(cli, drv, i, base + i, "none" if i % 2 == 0 else "zod") for i in range(n)]
    res = common.pmap(run_case, jobs, chunksize=2)
    combos = set()
    for (job, r) in zip(jobs, res):
        if "inconclusive" in r:
            v.inconclusive.append(r["inconclusive"])
            continue
        v.case(job[3], nontrivial=r["st"]["foreign_planted"] > 0, sample={"seed": job[3], "layout": r["layout"], "path": r["path"], **r["st"]})
        combos.add((r["layout"], r["path"]))
        for k, val in r["st"].items():
            v.count(k, val)
        for (sig, what, wit) in r["viol"]:
            v.violation(sig, what, wit)
    v.extra["layout_x_path_combinations_covered"] = len(combos)
    v.extra["strace_available"] = fsmon.STRACE is not None
    djobs = [(cli, drv, sp, via, "zod" if k % 2 else "none") for k, (sp, via) in enumerate(
        (sp, via) for sp in ("", ".", "./", "./.", "") for via in ("config-file", "tauri.conf.json", "build-script"))]
    for (job, r) in zip(djobs, common.pmap(run_degenerate_output, djobs)):
        if "skip" in r:
            v.extra["degenerate_output_paths"] = r["skip"]
            break
        if "inconclusive" in r:
            v.inconclusive.append(r["inconclusive"])
            continue
        v.case(("degenerate-output-path", job[2], job[3]), nontrivial=True)
        v.count("degenerate_output_path_runs")
        for (sig, what) in r["viol"]:
            v.violation(sig, what, {"output_path": job[2], "via": job[3], "mode": job[4], "note": "run inside `unshare -m -r` with a read-only root"})
    rule = ("a case is one sandbox: a project, an output directory in one of 5 placements (inside / beside / equal to the project, deep, via ..) "
            "pre-populated with 3-14 foreign and near-miss files, symlinks and stale reserved files, driven through 2-3 runs of one entry path "
            "(CLI absolute / relative / config file, init, build script) including runs that find no commands and mode switches; non-trivial = "
            "foreign files planted; distinct by generator seed; every run is bracketed by a recursive snapshot and traced with strace")
    return v.finish(rule, assumptions=["the transient .write_test probe may be created and removed unless a file of that name pre-existed (DESIGN 4.2)"])
