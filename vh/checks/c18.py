"""C18 — a type mapping replaces the mapped type everywhere and nothing else.
For each mapping table the same project is generated WITH and WITHOUT the table:
 (1) every position holding a mapped name N must denote the target M (compared with the reference denotation, N read as M),
 (2) no identifier of N (or NSchema) may remain anywhere in the mapped output,
 (3) every declaration that does not involve N must be token-identical in both runs (near-miss names included)."""
import random

from .. import common, proj, rustgen as rg, shape as sh, tsparse
from ..common import Verdict
from . import c05, defects
from .c13 import decl_multiset

NAMES = ["PathBuf", "Uuid", "DateTime<Utc>", "Decimal", "Url", "NaiveDate", "Duration", "OsString", "Arc<str>", "Box<Path>",
         # generic names with several arguments: the key is the type's text as the analysis prints it (", " between arguments)
         "Tagged<OrderTag, u64>", "Either<Left, Right>"]
TARGETS = ["string", "number", "boolean"]
PRIM_OF = {"string": rg.P("String"), "number": rg.P("f64"), "boolean": rg.P("bool")}
NEAR_MISS = ["PathBufExt", "MyUuid", "Uuids", "DateTimeRange", "DecimalPlaces", "UrlParts", "Utc", "Path"]

OTHERS = (rg.struct_src("PathBufExt", [("a", "i32")]) + rg.struct_src("MyUuid", [("b", "String")]) + rg.enum_src("Uuids", [("One",), ("Two",)]) +
          rg.struct_src("DateTimeRange", [("from", "i64"), ("to", "Option<i64>")]) + rg.struct_src("DecimalPlaces", [("n", "u8")]) +
          rg.struct_src("UrlParts", [("host", "String"), ("ext", "PathBufExt")]) + rg.struct_src("Utc", [("offset", "i32")]) + rg.struct_src("Path", [("segments", "Vec<String>")]) +
          rg.command_src("other_one", [("a", "PathBufExt"), ("b", "Vec<MyUuid>")], "Result<DateTimeRange, String>") +
          rg.command_src("other_two", [("u", "Option<Uuids>"), ("ch", "Channel<UrlParts>")], "HashMap<String, DecimalPlaces>") +
          rg.command_src("other_three", [("z", "Utc"), ("p", "Path")], "Vec<Utc>") +
          "pub fn other_event(app: AppHandle, x: Vec<UrlParts>) {\n    app.emit(\"other-event\", x).unwrap();\n}\n\n")


def positions(n):
    x = rg.N(n)
    ps = [x]
    for (_, f) in rg.slots():
        t = f(x)
        if rg.valid_type(t):
            ps.append(t)
    # two-deep
    for (_, f) in rg.slots()[:11]:
        for (_, g) in [rg.slots()[0], rg.slots()[1], rg.slots()[5], rg.slots()[8], rg.slots()[9]]:
            t = f(g(x))
            if rg.valid_type(t):
                ps.append(t)
    return ps


def subst(t, table):
    """the same tree with mapped names read as their targets"""
    k = t[0]
    if k == "named":
        return PRIM_OF[table[t[1]]] if t[1] in table else t
    if k in ("prim", "unit"):
        return t
    if k == "tuple":
        return ("tuple", [subst(x, table) for x in t[1]])
    return (k,) + tuple(subst(x, table) for x in t[1:])


CRATE_OF = {"PathBuf": "std::path::", "OsString": "std::ffi::", "Path": "std::path::", "Duration": "std::time::", "Uuid": "uuid::", "DateTime": "chrono::", "Utc": "chrono::",
            "NaiveDate": "chrono::naive::", "Decimal": "rust_decimal::", "Url": "url::", "Arc": "std::sync::", "Box": "std::boxed::"}


def qualify_mapped(text, table):
    """the foreign mapped names written the way code that does not import them writes them: through their crate path
    (std::path::PathBuf, chrono::DateTime<chrono::Utc>); a path names the same type, so the mapping applies all the same"""
    import re
    heads = set()
    for n in table:
        heads |= set(re.findall(r"[A-Za-z_][A-Za-z0-9_]*", n))
    for h in sorted(heads, key=len, reverse=True):
        if h in ("str", "u64", "Left", "Right", "OrderTag"):
            continue
        text = re.sub(r"(?<!struct )(?<!enum )(?<![A-Za-z0-9_:])%s(?![A-Za-z0-9_])" % re.escape(h), CRATE_OF.get(h, "ext_crate::v1_types::") + h, text)
    return text


def build(types, defined=(), qualified=False, table=None):
    if qualified and not defined and table:
        files = build(types, defined)
        return [(files[0][0], qualify_mapped(files[0][1], table))]
    """defined: mapped names that the project ALSO defines as serde structs (a project type with a custom wire format, mapped to
    what it looks like in JSON); all other mapped names are foreign types, as with PathBuf / Uuid in real use"""
    files = c05.build_batch(types, external=[n for n in NAMES if n not in defined])
    text = files[0][1]
    for n in defined:
        # the project's own definition of a mapped name has a field of a type that nothing else mentions: the mapped type is
        # replaced everywhere, so what only its fields reach is not part of the surface either
        plain = "pub struct %s {\n    pub a: i32,\n}" % n
        if plain in text:
            text = text.replace(plain, "pub struct %s {\n    pub a: i32,\n    pub via: OnlyVia%s,\n    pub shared: Vec<SharedWith%s>,\n}" % (n, n, n), 1)
            text += rg.struct_src("OnlyVia" + n, [("deep", "i32")])
            # ... and of a type that the rest of the API uses as well: that one is not named in the mapping and stays as it is
            text += rg.struct_src("SharedWith" + n, [("zone", "String"), ("offset", "i32")])
            text += rg.command_src("uses_shared_%s" % n.lower(), [("s", "SharedWith" + n)], "Option<SharedWith%s>" % n)
    return [(files[0][0], text + OTHERS)]


LET_INITS = c05.LET_INITS


def _pshow(p):
    try:
        return sh.show(sh.ts_shape(p))
    except Exception:
        return repr(p)[:120]


def id_tokens(text):
    toks, _ = tsparse.lex(text)
    return {t.v for t in toks if t.k == "id"}


def is_probe_decl(chunk, mapped=()):
    """declarations that belong to the N-sites (F<i>, Cmd<i>Params[Schema], cmd<i>, onE<i>) or declare a mapped name itself"""
    import re
    for tok in chunk[:6]:
        if re.fullmatch(r"(F\d+(Schema)?|Cmd\d+Params(Schema)?|cmd\d+|onE\d+|onL\d+)", tok):
            return True
        if tok in mapped or (tok.endswith("Schema") and tok[:-6] in mapped):
            return True
    return False


def run_case(a):
    cli, table, types, mode, defined = a[:5]
    files = build(types, defined, qualified=len(a) > 6 and a[6], table=table)
    ga = proj.generate(cli, files, mode=mode, config={"type_mappings": table}, tag="c18a")
    gb = proj.generate(cli, files, mode=mode, tag="c18b")
    try:
        for g in (ga, gb):
            if g.run.timed_out:
                return {"inconclusive": "watchdog"}
        if ga.run.rc != 0:
            return {"blocked": "mapped run failed rc=%s %s" % (ga.run.rc, ga.run.err[-200:])}
        oa = ga.output
        viol = []
        # (1) N-sites denote the target
        tmap = dict(types)
        obs = c05.observe(oa, types, mode)
        ok = 0
        for (i, site, got, note) in obs:
            t2 = subst(tmap[i], table)
            if c05.accept(t2, site, mode, got):
                ok += 1
                continue
            sigs = defects.classify_c05(t2, site, mode, got, note)
            known = [s for s in sigs if s.startswith(("ts-text ", "zod-schema "))]
            if known and len(known) == len(sigs):
                ok += 1          # exactly a C05 known defect (unparenthesised array element, z.set, Result union): not a mapping fault
                continue
            viol.append(("C18 mapped-position %s %s %s -> %s" % (mode, site, rg.skeleton(tmap[i]), sh.shape_skeleton(got) if got else "unusable"),
                         "%s site, %s mode, mapping %s: `%s` should read as %s but the output has %s %s" % (site, mode, table, rg.rust(tmap[i]), sh.show(rg.M(t2)), sh.show(got) if got else "<nothing usable>", note), i))
        # (1b) an annotated local carries the annotation's type: its listener must read exactly like the parameter-typed one
        lst = {l["event"]: l for l in oa.listeners() if l["event"]}
        let_sites = 0
        for (i, t) in types:
            le, ll = lst.get("e%d" % i), lst.get("l%d" % i)
            if le is None or le["payload"] is None:
                continue
            let_sites += 1
            if ll is None or ll["payload"] != le["payload"]:
                viol.append(("C18 mapped-position %s event-annotated-let %s" % (mode, rg.skeleton(tmap[i])),
                             "%s mode, mapping %s: payload `let y: %s = %s` has listener payload %s, the parameter-typed payload of the same type has %s" % (
                                 mode, table, rg.rust(tmap[i]), LET_INITS[i % len(LET_INITS)], _pshow(ll["payload"]) if ll and ll["payload"] is not None else "<no listener>", _pshow(le["payload"])), i))
        # (2) no trace of the mapped names
        forbidden = set()
        for n in table:
            for part in n.replace("<", " ").replace(">", " ").replace(",", " ").split():
                if part not in NEAR_MISS:
                    forbidden.add(part)
                    forbidden.add(part + "Schema")
        for n in defined:
            forbidden.add("OnlyVia" + n)
            forbidden.add("OnlyVia" + n + "Schema")
        for f, text in oa.texts.items():
            left = id_tokens(text) & forbidden
            if left:
                viol.append(("C18 mapped-name-still-present file=%s mode=%s%s" % (f, mode, " (name also defined in the project)" if set(defined) & {x[:-6] if x.endswith("Schema") else x for x in left} else ""),
                             "%s still mentions %s although mapped by %s%s" % (f, sorted(left), table, "; the project defines %s as serde structs" % sorted(defined) if defined else ""), None))
        # (3) everything else identical to the unmapped run
        if gb.run.rc == 0:
            ob = gb.output
            for f in sorted(set(oa.texts) | set(ob.texts)):
                if f not in oa.texts or f not in ob.texts:
                    viol.append(("C18 file-set-differs file=%s" % f, "%s exists only in the %s run" % (f, "mapped" if f in oa.texts else "unmapped"), None))
                    continue
                involved = set(table) | {"OnlyVia" + n for n in defined}       # what only a mapped type's fields reach goes with it
                da = [c for c in decl_multiset(common.strip_ts(oa.texts[f])) if not is_probe_decl(c, involved)]
                db = [c for c in decl_multiset(common.strip_ts(ob.texts[f])) if not is_probe_decl(c, involved)]
                if da != db:
                    only_a = [" ".join(c[:12]) for c in da if c not in db][:2]
                    only_b = [" ".join(c[:12]) for c in db if c not in da][:2]
                    viol.append(("C18 unrelated-declaration-changed file=%s mode=%s" % (f, mode), "%s: declarations not involving the mapped names differ: mapped-only %s, unmapped-only %s" % (f, only_a, only_b), None))
        # (4) the table is configuration: replacing every target (same names) and re-running WITHOUT --force into the same
        #     output directory must re-render every mapped position with the new targets
        rot = {"string": "number", "number": "boolean", "boolean": "string"}
        names_ = list(table)
        shifted = {names_[k]: table[names_[(k + 1) % len(names_)]] for k in range(len(names_))}     # targets exchanged between the names
        for table2 in ([{n: rot[m] for n, m in table.items()}] + ([shifted] if shifted != table else [])):
          gc = proj.generate(cli, None, mode=mode, config={"type_mappings": table2}, root=ga.root, tag="c18c")
          if gc.run.rc == 0:
              from .. import tsmod
              oc = tsmod.Output(gc.out)
              stale = 0
              for (i, site, got, note) in c05.observe(oc, types, mode):
                  t2 = subst(tmap[i], table2)
                  if c05.accept(t2, site, mode, got):
                      continue
                  sigs = defects.classify_c05(t2, site, mode, got, note)
                  if sigs and all(s.startswith(("ts-text ", "zod-schema ")) for s in sigs):
                      continue
                  stale += 1
                  if stale == 1:
                      viol.append(("C18 retargeted-table-not-applied-on-rerun %s %s" % (mode, site),
                                   "table %s replaced by %s, non-forced re-run (stdout tail %r): `%s` at the %s site still reads %s" % (
                                       table, table2, gc.run.out.strip().splitlines()[-1][:50] if gc.run.out.strip() else "", rg.rust(tmap[i]), site, sh.show(got) if got else "<nothing>"), i))
        # (5) the build-script entry path reads the same table from tauri.conf.json: the mapped names must be as absent there
        drv = a[5] if len(a) > 5 else None
        if drv and "<" not in "".join(table):
            import os
            broot = common.scratch("c18b")
            try:
                common.write_tree(os.path.join(broot, "src-tauri"), files)
                proj.write_tauri_conf(broot, "src-tauri", "gen", mode, {"typeMappings": table})
                rb, _ = proj.build_generate(drv, broot)
                if rb.rc == 0 and not rb.timed_out:
                    bo = common.read_outputs(os.path.join(broot, "gen"))
                    for f, text in bo.items():
                        if not f.endswith(".ts"):
                            continue
                        left = id_tokens(text) & forbidden
                        if left:
                            viol.append(("C18 mapped-name-still-present file=%s mode=%s entry=build-script%s" % (f, mode, " (name also defined in the project)" if defined else ""),
                                         "generate_at_build_time: %s still mentions %s although mapped by %s" % (f, sorted(left), table), None))
                    if "types.ts" in bo and "types.ts" in oa.texts and decl_multiset(common.strip_ts(bo["types.ts"])) != decl_multiset(common.strip_ts(oa.texts["types.ts"])):
                        viol.append(("C18 build-script-output-differs-from-cli mode=%s" % mode, "types.ts written by generate_at_build_time differs from the CLI's for the same table %s" % table, None))
            finally:
                common.rmtree(broot)
        # (6) the library entry point (generate_from_config) takes the table in its configuration value: same bindings as the CLI's
        if drv:
            import json as _json, os as _os
            lroot = common.scratch("c18l")
            try:
                common.write_tree(_os.path.join(lroot, "src"), files)
                _json.dump({"project_path": _os.path.join(lroot, "src"), "output_path": _os.path.join(lroot, "out"), "validation_library": mode, "type_mappings": table,
                            "verbose": len(types) % 2 == 0}, open(_os.path.join(lroot, "cfg.json"), "w"))
                rl = common.run([drv, "gen", _os.path.join(lroot, "cfg.json")], cwd=lroot, timeout=120)
                if not rl.timed_out and "RESULT ok" in rl.out:
                    lo = common.read_outputs(_os.path.join(lroot, "out"))
                    for f in sorted(oa.texts):
                        if f.endswith(".ts") and (f not in lo or decl_multiset(common.strip_ts(lo[f])) != decl_multiset(common.strip_ts(oa.texts[f]))):
                            viol.append(("C18 library-output-differs-from-cli file=%s mode=%s" % (f, mode), "generate_from_config with type_mappings %s: %s %s" % (
                                table, f, "is missing" if f not in lo else "differs from what the CLI writes for the same table"), None))
                elif not rl.timed_out:
                    viol.append(("C18 library-run-fails mode=%s" % mode, "generate_from_config with type_mappings %s: %s" % (table, (rl.out + rl.err).strip()[-200:]), None))
            finally:
                common.rmtree(lroot)
        return {"viol": viol, "ok": ok, "n": len(obs), "files": files, "let_sites": let_sites, "library": 1 if drv else 0}
    finally:
        ga.cleanup()
        gb.cleanup()


EXOTIC_TARGETS = ["Date", "bigint", "Uint8Array", "unknown", "Record<string, unknown>", "number[]"]


def run_exotic_case(a):
    """mapping targets other than string / number / boolean: the target is TypeScript text supplied by the user. It must appear as
    written (never namespace-qualified: types.ts does not export it), N must disappear, and every file must still parse"""
    cli, name, target, mode = a
    types = list(enumerate(positions(name)[:14]))
    files = build(types)
    g = proj.generate(cli, files, mode=mode, config={"type_mappings": {name: target}}, tag="c18x")
    try:
        if g.run.timed_out:
            return {"inconclusive": "watchdog"}
        if g.run.rc != 0:
            return {"blocked": "rc=%s" % g.run.rc}
        out = g.output
        viol = []
        for e in out.errors()[:1]:
            viol.append(("C18 exotic-target output-does-not-parse file=%s" % e["file"], "%s -> %s (%s mode): %s:%d %s | %s" % (name, target, mode, e["file"], e["line"], e["msg"], e["text"])))
        head = tsparse.lex(target)[0][0].v
        for f, text in out.texts.items():
            toks, _ = tsparse.lex(text)
            vals = [t.v for t in toks]
            for i in range(len(vals) - 2):
                if vals[i] == "types" and vals[i + 1] == "." and vals[i + 2] == head:
                    viol.append(("C18 mapped-target-namespace-qualified file=%s" % f, "%s -> %s (%s mode): %s refers to types.%s, which types.ts does not export" % (name, target, mode, f, head)))
                    break
            left = {t.v for t in toks if t.k == "id"} & {name.split("<")[0], name.split("<")[0] + "Schema"}
            if left:
                viol.append(("C18 mapped-name-still-present file=%s mode=%s" % (f, mode), "%s still mentions %s although mapped to %s" % (f, sorted(left), target)))
        if mode == "none" and head not in ("unknown",):
            present = sum(1 for f, text in out.texts.items() if head in {t.v for t in tsparse.lex(text)[0]})
            if present == 0:
                viol.append(("C18 exotic-target-never-rendered", "%s -> %s: the target does not occur in any generated file" % (name, target)))
        return {"viol": viol, "n": len(types), "files": files}
    finally:
        g.cleanup()


def run_instantiation_case(a):
    """the table names a bare N while the project also uses generic types whose base name is N (`Moment<Utc>` next to `Moment`). The
    lookup is by exact name, so the instantiations are not named in the mapping: every line about them must read exactly as in the
    unmapped run. (Differential: the zz_ names mark the positions of the instantiations; the plain N sits in declarations of its own.)"""
    cli, base, target, mode = a
    inst = ["%s<Utc>" % base, "Vec<%s<Local>>" % base, "Option<%s<Utc>>" % base, "HashMap<String, %s<Local>>" % base]
    src = (HDR_ + rg.struct_src("ZzHolder", [("zz_inst", inst[0]), ("zz_list", inst[1]), ("zz_opt", inst[2]), ("zz_map", inst[3])]) +
           rg.struct_src("PlainHolder", [("plain", base), ("plains", "Vec<%s>" % base)]) +
           rg.command_src("zz_cmd", [("zz_param", inst[0]), ("zz_chan", "Channel<%s>" % inst[0]), ("zz_holder", "ZzHolder")], inst[1]) +
           rg.command_src("plain_cmd", [("plain", base), ("holder", "PlainHolder")], "Option<%s>" % base) +
           "pub fn zz_notify(app: AppHandle, zz_payload: %s) {\n    app.emit(\"zz-event\", zz_payload).unwrap();\n}\n\n" % inst[0] +
           "pub fn plain_notify(app: AppHandle, p: %s) {\n    app.emit(\"plain-event\", p).unwrap();\n}\n\n" % base)
    files = [("lib.rs", src)]
    ga = proj.generate(cli, files, mode=mode, config={"type_mappings": {base: target}}, tag="c18ia")
    gb = proj.generate(cli, files, mode=mode, tag="c18ib")
    try:
        if ga.run.timed_out or gb.run.timed_out:
            return {"inconclusive": "watchdog"}
        if ga.run.rc != 0 or gb.run.rc != 0:
            return {"blocked": "rc=%s/%s" % (ga.run.rc, gb.run.rc)}
        viol, compared = [], 0
        for f in sorted(set(ga.output.texts) | set(gb.output.texts)):
            la = [l.strip() for l in common.strip_ts(ga.output.texts.get(f, "")).splitlines() if "zz" in l.lower()]
            lb = [l.strip() for l in common.strip_ts(gb.output.texts.get(f, "")).splitlines() if "zz" in l.lower()]
            compared += len(lb)
            if la != lb:
                d = [(x, y) for x, y in zip(la, lb) if x != y][:1] or [(la[len(lb):][:1], lb[len(la):][:1])]
                viol.append(("C18 instantiation-of-mapped-base-name-changed file=%s mode=%s" % (f, mode),
                             "table {%s: %s}: a line about %s<..>, which the table does not name, differs from the unmapped run: mapped %r, unmapped %r" % (base, target, base, d[0][0], d[0][1])))
        return {"viol": viol, "compared": compared, "files": files}
    finally:
        ga.cleanup()
        gb.cleanup()


HDR_ = rg.PRELUDE + "use tauri::{AppHandle, Emitter, ipc::Channel};\n\n"


def run(tier):
    v = Verdict("C18", "exploration", tier)
    cli = common.build_cli()
    drv = common.build_driver()
    rnd = random.Random(common.seed())
    jobs = []
    tables = []
    for n in NAMES:
        tables.append({n: TARGETS[len(tables) % 3]})
    # tables in which several names share one target (all of them move together when the table is retargeted)
    tables.append({"PathBuf": "string", "Uuid": "string"})
    tables.append({"PathBuf": "number", "Uuid": "number", "Decimal": "number", "Url": "number"})
    tables.append({"Uuid": "string", "Url": "number"})
    for _ in range(6 if tier == "quick" else 150):
        k = rnd.randint(2, 3)
        tables.append({n: rnd.choice(TARGETS) for n in rnd.sample(NAMES, k)})
    for table in tables:
        types = []
        for n in table:
            types.extend(positions(n))
        if len(table) > 1:
            ns = list(table)
            types.append(("hmap", rg.N(ns[0]), rg.N(ns[1])))
            types.append(("tuple", [rg.N(x) for x in ns] + [rg.N("Named")]))
            types.append(("vec", ("tuple", [rg.N(ns[-1]), ("opt", rg.N(ns[0]))])))
        if tier == "thorough":
            for _ in range(60):
                types.append(rg.random_type(rnd, rnd.randint(2, 4), named=tuple(table) + ("Named",), allow_ref=False))
        seen = set()
        uniq = []
        for t in types:
            r = rg.rust(t)
            if r not in seen:
                seen.add(r)
                uniq.append(t)
        ets = list(enumerate(uniq))
        simple = tuple(n for n in table if "<" not in n)
        for mode in ("none", "zod"):
            jobs.append((cli, table, ets, mode, (), drv if len(jobs) % 3 == 0 else None))
            if tier == "thorough" or len(jobs) % 3 == 2:
                jobs.append((cli, table, ets, mode, (), None, True))      # the mapped names written through their crate paths
            # the same table over a project that itself defines the mapped names (every second table in the quick tier)
            if simple and (tier == "thorough" or len(jobs) % 4 == 1):
                jobs.append((cli, table, ets, mode, simple, drv))
    res = common.pmap(run_case, jobs, chunksize=1)
    for (job, r) in zip(jobs, res):
        _, table, ets, mode, defined = job[:5]
        if len(job) > 5 and job[5]:
            v.count("tables_also_run_through_the_build_script_path")
        if "inconclusive" in r:
            v.inconclusive.append("watchdog")
            continue
        if "blocked" in r:
            v.blocked += len(ets)
            v.evaluations += len(ets)
            v.count("blocked:" + r["blocked"][:60])
            continue
        for (i, t) in ets:
            v.case((tuple(sorted(table.items())), mode, bool(defined), rg.rust(t)), nontrivial=rg.depth(t) >= 1)
        if len(v.samples) < 6:
            v.samples.append({"mapping": table, "mode": mode, "positions": len(ets), "example": rg.rust(ets[min(5, len(ets) - 1)][1])})
        v.count("mapped_positions_compared", r["n"])
        if defined:
            v.count("projects_that_also_define_the_mapped_names")
        v.count("mapped_positions_ok", r["ok"])
        v.count("annotated_let_event_sites_compared", r.get("let_sites", 0))
        v.count("tables_also_run_through_the_library_entry_point", r.get("library", 0))
        tm = dict(ets)
        for (sig, what, i) in r["viol"]:
            wit = proj.witness_of(build([(i, tm[i])], defined) if i is not None else r["files"], mode, config={"type_mappings": table})
            if defined:
                v.count("violations_in_projects_defining_the_mapped_names")
            v.violation(sig, what, wit)
    xjobs = [(cli, name, target, mode) for name in ("PathBuf", "Uuid") for target in EXOTIC_TARGETS for mode in ("none", "zod")]
    for (job, r) in zip(xjobs, common.pmap(run_exotic_case, xjobs)):
        if "inconclusive" in r:
            v.inconclusive.append("watchdog")
            continue
        v.case(("exotic-target", job[1], job[2], job[3]), nontrivial=True)
        if "blocked" in r:
            v.blocked += 1
            continue
        v.count("exotic_target_projects")
        for (sig, what) in r["viol"]:
            v.violation(sig, what, proj.witness_of(r["files"], job[3], config={"type_mappings": {job[1]: job[2]}}))
    ijobs = [(cli, base, target, mode) for base in ("Moment", "Uuid", "Decimal") for target in ("string", "number") for mode in ("none", "zod")]
    for (job, r) in zip(ijobs, common.pmap(run_instantiation_case, ijobs)):
        if "inconclusive" in r:
            v.inconclusive.append("watchdog")
            continue
        v.case(("instantiation-of-mapped-base-name",) + job[1:], nontrivial=True)
        if "blocked" in r:
            v.blocked += 1
            continue
        v.count("instantiation_lines_compared_with_the_unmapped_run", r["compared"])
        for (sig, what) in r["viol"]:
            v.violation(sig, what, proj.witness_of(r["files"], job[3], config={"type_mappings": {job[1]: job[2]}}))
    v.extra["mapping_tables"] = len(tables)
    rule = ("a case is (mapping table, mode, type expression holding a mapped name at some constructor position), placed at the five sites of one "
            "project that also contains unrelated and near-miss-named declarations; each project is generated with and without the table; "
            "non-trivial = the mapped name sits below at least one constructor; distinct by the tuple")
    return v.finish(rule, assumptions=["the mapping table is written with unqualified names; the sources also spell the mapped names through their crate paths (DESIGN 4.2)",
                                       "positions whose output equals a recorded C05 defect model (z.set, Result union, unparenthesised array element) are not mapping faults"])
