"""C04 — the object passed to invoke has exactly the keys Tauri deserialises.
The delivered key set is computed symbolically from the parsed call site (`params` => keys of the Params
interface, `result.data` => keys of the ParamsSchema object, `{...result.data, k: params.k}` => union) and
compared with heck's ToLowerCamelCase/ToSnakeCase of the Rust parameter names (what tauri-macros applies);
other default_parameter_case values are compared with real serde_derive rename_all output."""
import json
import random

from .. import common, proj, rustgen as rg, serde_oracle, shape as sh
from ..common import Verdict

INJECTED = ["AppHandle", "tauri::AppHandle", "AppHandle<R>", "tauri::AppHandle<R>", "State<'_, AppState>", "tauri::State<'_, AppState>",
            "State<'_, Mutex<AppState>>", "tauri::State<'_, std::sync::Mutex<AppState>>", "Window<R>", "tauri::Window", "tauri::Window<R>",
            "WebviewWindow", "tauri::WebviewWindow", "WebviewWindow<R>", "tauri::WebviewWindow<R>", "tauri::ipc::Request<'_>",
            # module-qualified spellings of the same framework types (tauri::window::Window, tauri::webview::WebviewWindow exist in Tauri 2)
            "tauri::window::Window<R>", "tauri::webview::WebviewWindow<R>", "tauri::webview::WebviewWindow", "tauri::AppHandle<tauri::Wry>",
            "tauri::State<'_, std::sync::Arc<Mutex<AppState>>>", "State<'_, std::collections::HashMap<String, AppState>>"]
CHANNELS = ["Channel<Msg>", "tauri::ipc::Channel<Msg>", "Channel<String>", "Channel<Vec<Msg>>",
            # the message type has a default: the path-qualified name alone is Tauri's channel as well
            "tauri::ipc::Channel", "tauri::ipc::Channel<>", "tauri::Channel<Msg>", "::tauri::ipc::Channel<Msg>"]
NAMES = ["id", "user_id", "first_name_2", "a", "x1", "y_1", "get_2fa", "_lead", "__dunder", "a__b", "x___y", "trailing_", "http_status_code",
         "a1_b2_c3", "on_event", "on_progress", "_", "z_9_z", "very_long_parameter_name_with_many_words", "r#type", "r#match", "is_ok", "i", "n2",
         "größe_max", "naïve", "user_名前",
         # words that are reserved in JavaScript or bound by commands.ts itself: as argument KEYS they are just names
         "types", "default", "new", "delete", "arguments", "class", "with", "invoke", "package", "public", "function", "this_", "await_value"]     # (serde_derive itself panics on a non-ASCII FIRST letter under rename_all)
VALUE_TYPES = [("i32", False), ("String", False), ("Option<i32>", True), ("Option<String>", True), ("Vec<u8>", False), ("Msg", False),
               ("Option<Msg>", True), ("bool", False), ("Option<Vec<Option<i32>>>", True), ("&str", False),
               # project types that merely share a name with a framework type the statement lists only in its qualified form
               ("Request", False), ("models::Request", False), ("Option<Request>", True),
               # Option written through a path is as omittable as the prelude's spelling
               ("std::option::Option<i32>", True), ("core::option::Option<String>", True), ("::std::option::Option<Msg>", True), ("option::Option<bool>", True)]
CASES = ["camelCase", "snake_case", "PascalCase", "SCREAMING_SNAKE_CASE", "kebab-case", "SCREAMING-KEBAB-CASE", "lowercase", "UPPERCASE"]
HECK_KEY = {"camelCase": "camelCase", "snake_case": "snake_case"}


def gen_commands(rnd, n, idx):
    cmds = []
    for c in range(n):
        k = rnd.randint(0, 6)
        names = rnd.sample([x for x in NAMES if x != "_"], min(k, len(NAMES) - 1))
        params = []
        for nm in names:
            r = rnd.random()
            if r < 0.25:
                # an injected parameter the body does not use is often bound by the wildcard pattern: `_: State<'_, Db>`
                params.append(("_" if rnd.random() < 0.3 else nm, rnd.choice(INJECTED), "injected", False))
            elif r < 0.45:
                params.append((nm, rnd.choice(CHANNELS), "channel", False))
            else:
                ty, opt = rnd.choice(VALUE_TYPES)
                params.append((nm, ty, "value", opt))
        if rnd.random() < 0.15:
            params = [(p[0], p[1], p[2], p[3]) for p in params]
        # the command itself may be written as a raw identifier (r#name is the identifier `name`)
        # the command macro's own argument-case option: #[tauri::command(rename_all = "snake_case")] makes Tauri read snake_case keys
        macro_case = rnd.choice([None, None, None, "snake_case", "snake_case", "camelCase"])
        cmds.append({"name": "cmd_%d_%d" % (idx, c), "raw": rnd.random() < 0.2, "params": params, "mut": [rnd.random() < 0.15 for _ in params],
                     "macro_case": macro_case, "macro_form": rnd.randrange(6)})
    return cmds


def project_src(cmds):
    src = [rg.PRELUDE, "use tauri::{AppHandle, State, Window, WebviewWindow, Runtime, ipc::Channel};\nuse std::sync::Mutex;\n\n",
           "pub struct AppState { pub n: i32 }\n\n", rg.struct_src("Msg", [("text", "String")]), rg.struct_src("Request", [("url", "String")])]
    for c in cmds:
        generic = "<R: Runtime>" if any("<R>" in p[1] for p in c["params"]) else ""
        ps = ", ".join("%s%s: %s" % ("mut " if m and p[0] != "_" else "", p[0], p[1]) for p, m in zip(c["params"], c["mut"]))
        attr = "#[tauri::command]"
        if c.get("macro_case"):
            attr = ['#[tauri::command(rename_all = "%s")]', '#[tauri::command(async, rename_all = "%s")]', '#[tauri::command(rename_all = "%s", root = "crate")]',
                    '#[tauri::command(root = "crate", rename_all = "%s")]', '#[tauri::command(async, root = "crate", rename_all = "%s")]',
                    '#[command(rename_all = "%s")]'][c["macro_form"]] % c["macro_case"]
        k_ = len(src)
        if k_ % 3 == 0:
            # functions between the commands that are nobody's command — another crate's `command` attribute, a plain helper, a test —
            # with channels of their own in the signature: what they take says nothing about what the commands around them take
            src.append(["#[poise::command(slash_command)]\npub async fn other_crate_cmd_%d(ctx: Context<'_>, sink: Channel<Msg>, extra_sink: Channel<String>) -> Result<(), String> {\n    todo!()\n}\n\n",
                        "pub fn helper_%d(app: AppHandle, on_helper_event: Channel<Msg>, helper_flag: bool) {\n    todo!()\n}\n\n",
                        "#[clap::command]\n#[allow(dead_code)]\nfn cli_entry_%d(on_cli: Channel<u8>) {}\n\n"][(k_ // 3) % 3] % k_)
        src.append("%s\npub async fn %s%s%s(%s) -> Result<(), String> {\n    todo!()\n}\n\n" % (attr, "r#" if c.get("raw") else "", c["name"], generic, ps))
    # plain functions that share a command's name, in files that sort before and after the command's file (a module-level helper the
    # command delegates to): they are not the command, and what they take is not what the command takes
    twins = lambda k0: "".join("pub fn %s(url: &str, retries: u8) -> u32 {\n    0\n}\n\n" % c["name"] for k, c in enumerate(cmds) if k % 2 == k0 and not c.get("raw"))
    return [("lib.rs", "".join(src)), ("aaa_helpers.rs", "// helpers\n" + twins(0)), ("zzz/more_helpers.rs", "// more helpers\n" + twins(1))]


def tsparse_unquote(lit):
    from .. import tsparse
    toks, _ = tsparse.lex(lit)
    return toks[0].v if toks and toks[0].k == "str" else lit.strip('"')


def object_keys_of_expr(e, out, fn_name):
    """symbolic key set of the second invoke argument. returns (keys:set | None, how)"""
    ifaces = out.interfaces()
    consts = out.consts()
    aliases = out.aliases()

    def text_keys(header, closer):
        """lenient fallback when a declaration does not parse (e.g. a Rust path leaked into one member's TYPE): the key names
        are still read off the member lines, so a key that should not exist is not hidden behind a syntax error elsewhere"""
        import re
        text = out.texts.get("types.ts", "")
        i = text.find(header)
        if i < 0:
            return None
        j = text.find(closer, i)
        if j < 0:
            return None
        keys = {}
        for line in text[i + len(header):j].split("\n"):
            m = re.match(r'^\s*("(?:[^"\\]|\\.)*"|[A-Za-z_$][\w$]*)\s*(\??):(.*)$', line)
            if m and not line.strip().startswith("["):
                k = m.group(1)
                if k.startswith('"'):
                    k = tsparse_unquote(k)
                keys[k] = bool(m.group(2)) or m.group(3).rstrip().rstrip(",").endswith(".optional()")
        return keys

    def iface_keys(name):
        it = ifaces.get(name)
        if it is None and name not in aliases:
            tk = text_keys("export interface %s {" % name, "\n}")
            if tk is not None:
                return tk
        if it is not None:
            keys = {}
            for m in it["members"]:
                if m[0] == "prop":
                    keys[m[1]] = bool(m[3])
            for ext in it["extends"]:
                # z.infer<typeof XSchema>
                if ext[0] == "ref" and ext[1] == "z.infer" and ext[2] and ext[2][0][0] == "typeof":
                    sk = schema_keys(ext[2][0][1])
                    if sk is None:
                        return None
                    for k2, v2 in sk.items():
                        keys.setdefault(k2, v2)
            return keys
        al = aliases.get(name)
        if al is not None:
            ty = al["type"]
            if ty[0] == "ref" and ty[1] == "z.infer" and ty[2] and ty[2][0][0] == "typeof":
                return schema_keys(ty[2][0][1])
        return None

    def schema_keys(cname):
        c = consts.get(cname)
        if c is None or c["init"] is None:
            return text_keys("export const %s = z.object({" % cname, "\n});")
        try:
            s = sh.zod_shape(c["init"])
        except sh.ShapeError:
            return None
        if s[0] != "obj":
            return None
        return {p[0]: bool(p[2]) for p in s[1]}

    # the wrapper's parameter type: types.XParams
    fn = None
    for it in out.items("commands.ts", "function"):
        if it["name"] == fn_name:
            fn = it
    pname = None
    if fn and fn["params"] and fn["params"][0][0] == "params" and fn["params"][0][2] and fn["params"][0][2][0] == "ref":
        pname = sh.strip_ns(fn["params"][0][2][1])
    if e is None:
        return {}, "no argument object"
    if e[0] == "id" and e[1] == "params":
        return iface_keys(pname) if pname else None, "params"
    if e[0] == "member" and e[1][0] == "id" and e[1][1] == "result" and e[2] == "data":
        # find the schema used in safeParse inside this function
        from ..tsmod import walk
        for nnode in walk(fn["body"]):
            if nnode and nnode[0] == "call" and nnode[1][0] == "member" and nnode[1][2] == "safeParse":
                recv = nnode[1][1]
                if recv[0] == "member" and recv[1][0] == "id" and recv[1][1] == "types":
                    return schema_keys(recv[2]), "result.data"
        return None, "result.data without safeParse"
    if e[0] == "object":
        keys = {}
        for p in e[1]:
            if p[0] == "spread":
                sub, how = object_keys_of_expr(p[1], out, fn_name)
                if sub is None:
                    return None, "spread of unknown"
                keys.update(sub)
            elif p[0] == "prop":
                keys[p[1]] = False
            elif p[0] == "shorthand":
                keys[p[1]] = False
            else:
                return None, "unsupported object member"
        return keys, "object literal"
    return None, "unrecognised argument expression"


def run_case(a):
    cli, idx, seed, mode, case = a
    rnd = random.Random(seed)
    cmds = gen_commands(rnd, rnd.randint(3, 8), idx)
    files = project_src(cmds)
    cfg = None if case == "camelCase" and rnd.random() < 0.5 else {"default_parameter_case": case}
    g = proj.generate(cli, files, mode=mode, config=cfg, tag="c04")
    try:
        if g.run.timed_out:
            return {"inconclusive": "watchdog"}
        if g.run.abnormal():
            return {"blocked": "crash"}
        if g.run.rc != 0:
            return {"blocked": "rc=%s %s" % (g.run.rc, g.run.err[-200:])}
        out = g.output
        if out.mods.get("commands.ts") is None or out.mods["commands.ts"].errors:
            pf = common.parse_fault(out, ("commands.ts",)) or ("commands.ts missing", "commands.ts was not written")
            return {"parse_fault": pf, "files": files, "cfg": cfg}
        seen = {}
        for fname, lst in out.commands().items():
            for c in lst:
                seen[c["invoke_name"]] = (fname, c)
        obs = []
        for c in cmds:
            if c["name"] not in seen:
                obs.append((c, None, "wrapper missing"))
                continue
            fname, w = seen[c["name"]]
            keys, how = object_keys_of_expr(w["invoke_arg"], out, fname)
            obs.append((c, keys, how))
        return {"obs": [(c, keys, how) for (c, keys, how) in obs], "files": files, "cfg": cfg}
    finally:
        g.cleanup()


def run(tier):
    v = Verdict("C04", "exploration", tier)
    cli = common.build_cli()
    heck = serde_oracle.heck_table([n.replace("r#", "") for n in NAMES])
    # serde reference for the other conventions: one struct per convention with the parameter names as fields
    prog = ["#![allow(dead_code, non_snake_case)]\nuse serde::Serialize;\n"]
    fields = [n for n in NAMES if n != "_"]
    for ci, case in enumerate(CASES):
        prog.append('#[derive(Serialize)]\n#[serde(rename_all = "%s")]\nstruct C%d { %s }\n' % (case, ci, ", ".join("%s: i32" % f for f in fields)))
    prog.append("fn main() {\n")
    for ci, case in enumerate(CASES):
        prog.append('    println!("%s\\t{}", serde_json::to_string(&C%d { %s }).unwrap());\n' % (case, ci, ", ".join("%s: %d" % (f, i) for i, f in enumerate(fields))))
    prog.append("}\n")
    serde_ref = {}
    for line in serde_oracle.run_serde("".join(prog)).splitlines():
        case, js = line.split("\t", 1)
        d = json.loads(js)
        inv = {vv: kk for kk, vv in d.items()}
        serde_ref[case] = {f: inv.get(i) for i, f in enumerate(fields)}
    # cross-check the two references where both apply (camelCase / snake_case) — informational
    ref_disagree = [(f, heck[f.replace("r#", "")][c], serde_ref[c][f]) for c in ("camelCase", "snake_case") for f in fields if heck[f.replace("r#", "")][c] != serde_ref[c][f]]
    v.extra["heck_vs_serde_rule_differences"] = ref_disagree[:10]

    def expected_key(name, case):
        if case == "camelCase":
            return heck[name.replace("r#", "")][case]
        return serde_ref[case][name]

    def acceptable_keys(name, case):
        # snake_case of a name that already is snake_case: Tauri's heck normalises `_lead` -> `lead`, serde's rule is the
        # identity; the statement does not choose, so either is accepted (DESIGN 4.2)
        if case == "snake_case":
            return {heck[name.replace("r#", "")][case], serde_ref[case][name]}
        return {expected_key(name, case)}

    n = 120 if tier == "quick" else 12000
    base = common.seed() * 7000003
    jobs = []
    for i in range(n):
        for mode in ("none", "zod"):
            case = "camelCase" if i % 3 else CASES[(i // 3) % len(CASES)]
            jobs.append((cli, i, base + i, mode, case))
    res = common.pmap(run_case, jobs, chunksize=4)
    for (job, r) in zip(jobs, res):
        _, idx, sd, mode, case = job
        if "inconclusive" in r:
            v.inconclusive.append("watchdog")
            continue
        if "blocked" in r:
            v.blocked += 1
            v.case((sd, mode, case), nontrivial=False)
            v.count("blocked:" + r["blocked"][:40])
            continue
        if "parse_fault" in r:
            v.case((sd, mode, case), nontrivial=True)
            v.violation("C04 %s commands.ts-does-not-parse %s" % (mode, r["parse_fault"][0]), r["parse_fault"][1], proj.witness_of(r["files"], mode, config=r["cfg"]))
            continue
        cfg_case = case
        for (c, keys, how) in r["obs"]:
            # the macro's rename_all, where given, is what Tauri applies to this command; otherwise the configured convention
            case = c.get("macro_case") or cfg_case
            mtag = " command-macro-rename_all" if c.get("macro_case") and c["macro_case"] != cfg_case else ""
            if c.get("macro_case"):
                v.count("commands_with_macro_rename_all")
            kinds = sorted({p[2] for p in c["params"]})
            v.case((sd, mode, case, c["name"]), nontrivial=len(c["params"]) >= 2,
                   sample={"command": c["name"], "params": [[p[0], p[1]] for p in c["params"]], "mode": mode, "case": case, "delivered_keys": sorted(keys) if keys else keys})
            v.count("commands_checked")
            wit = proj.witness_of(r["files"], mode, config=r["cfg"], extra={"command": c["name"]})
            exp = {}
            for p in c["params"]:
                if p[2] == "injected":
                    continue
                exp[expected_key(p[0], case)] = (p, p[3])
            if None in exp or len(exp) != len([p for p in c["params"] if p[2] != "injected"]):
                v.count("generator_key_collisions_skipped")
                continue
            if keys is None:
                v.violation("C04 %s delivered-keys-not-derivable (%s)" % (mode, how), "command %s: %s" % (c["name"], how), wit)
                continue
            v.count("keys_compared", len(exp))
            for k0, (p, opt) in exp.items():
                alts = [x for x in acceptable_keys(p[0], case) if x in keys]
                k = alts[0] if alts else k0
                if k not in keys:
                    v.violation("C04 %s case=%s%s missing-key kind=%s nameclass=%s" % (mode, case, mtag, p[2], name_class(p[0])),
                                "command %s: parameter `%s: %s` should be delivered under key %r; delivered keys: %s (%s)" % (c["name"], p[0], p[1], k, sorted(keys), how), wit)
                elif p[2] == "value" and bool(keys[k]) != bool(opt):
                    v.violation("C04 %s optionality kind=value option=%s" % (mode, opt),
                                "command %s: key %r is %s but the Rust parameter `%s: %s` is %san Option" % (
                                    c["name"], k, "omittable" if keys[k] else "required", p[0], p[1], "" if opt else "not "), wit)
            allowed = set()
            for (p, opt) in exp.values():
                allowed |= acceptable_keys(p[0], case)
            for k in keys:
                if k not in allowed:
                    origin = "unknown"
                    for p in c["params"]:
                        if p[2] == "injected" and (k == p[0] or k.replace("_", "").lower() == p[0].replace("_", "").replace("r#", "").lower()):
                            origin = "injected:" + spelling_class(p[1])
                    v.violation("C04 %s case=%s%s extra-key origin=%s" % (mode, case, mtag, origin),
                                "command %s: key %r is delivered to invoke but no frontend-filled parameter has that name; expected %s" % (c["name"], k, sorted(exp)), wit)
    rule = ("a case is one command (0-6 parameters mixing value / channel / injected spellings, names over snake_case shapes) under one mode and one "
            "default_parameter_case; non-trivial = at least two parameters; distinct by (generator seed, mode, case, command)")
    return v.finish(rule, assumptions=["heck 0.5 ToLowerCamelCase/ToSnakeCase is what tauri-macros applies to argument names",
                                       "for conventions Tauri itself does not offer, serde_derive's rename_all on identically named fields is the reference"])


def name_class(n):
    if n.startswith("r#"):
        return "raw"
    if n.startswith("__"):
        return "leading-double-underscore"
    if n.startswith("_"):
        return "leading-underscore"
    if "___" in n:
        return "triple-underscore"
    if "__" in n:
        return "double-underscore"
    if n.endswith("_"):
        return "trailing-underscore"
    if any(ch.isdigit() for ch in n):
        return "digits"
    if "_" not in n:
        return "single-word"
    return "plain-snake"


def spelling_class(ty):
    base = ty.split("<")[0]
    return base + ("<..>" if "<" in ty else "")
