"""Cause classification of mismatches.

A concrete mismatch is turned into one or more signatures that are finer than the property and coarser than
the input. For every defect recorded in known_findings.json there is a *defect model* here: an executable
description of exactly what the defective code emits. A mismatch is attributed to a known cause only if the
emitted shape EQUALS the defect model's prediction; anything else gets a fresh signature (constructor
skeleton of the input -> skeleton of what was emitted) and is therefore reported."""
from .. import rustgen as rg, shape as sh
from ..rustgen import norm_union


# ---------------------------------------------------------------- TS-type sites (interfaces, Promise<>, Channel<>, payload)
def ts_text_model(t):
    """The text the visitor emits for a type WITHOUT parenthesising array elements (known defect
    'array-of-nullable-unparenthesised'); otherwise exactly the documented translation."""
    k = t[0]
    if k == "prim":
        return sh.show(rg.M(t))
    if k == "unit":
        return "void"
    if k == "named":
        return t[1]
    if k == "ref":
        return ts_text_model(t[1])
    if k == "opt":
        return "%s | null" % ts_text_model(t[1])
    if k in ("vec", "hset", "bset"):
        return "%s[]" % ts_text_model(t[1])
    if k in ("hmap", "bmap"):
        return "Record<%s, %s>" % (ts_text_model(t[1]), ts_text_model(t[2]))
    if k == "tuple":
        return "[%s]" % ", ".join(ts_text_model(x) for x in t[1])
    if k in ("res", "res1"):
        return ts_text_model(t[1])
    raise ValueError(t)


def add_types_prefix_model(ts):
    """port of the string-pattern namespace prefixing applied to return and payload types (known defects:
    Record/tuple members are not qualified)"""
    if ts in ("void", "string", "number", "boolean", "any", "unknown", "null", "undefined"):
        return ts
    if ts.endswith("[]"):
        return "%s[]" % add_types_prefix_model(ts[:-2])
    if ts.startswith("Record<") or ts.startswith("Map<"):
        return ts
    if ts.endswith(" | null"):
        return "%s | null" % add_types_prefix_model(ts[:-7])
    if ts.endswith(" | undefined"):
        return "%s | undefined" % add_types_prefix_model(ts[:-12])
    if ts.startswith("[") and ts.endswith("]"):
        return ts
    if ts.startswith("types."):
        return ts
    return "types." + ts


def ts_model_shape(text):
    from .. import tsparse
    try:
        return sh.ts_shape(tsparse.parse_type_text(text))
    except (tsparse.TsError, sh.ShapeError):
        return None


# ---------------------------------------------------------------- Zod schema sites
def zod_defective_shape(t, flags, top=True):
    k = t[0]
    if k in ("prim", "unit", "named"):
        return rg.M(t)
    if k == "ref":
        return zod_defective_shape(t[1], flags, top)
    if k == "opt":
        inner = zod_defective_shape(t[1], flags, top)
        if top:
            return ("optional", inner[1] if inner[0] == "optional" else inner)
        return norm_union([inner, ("null",)])
    if k == "vec":
        return ("arr", zod_defective_shape(t[1], flags, False))
    if k in ("hset", "bset"):
        flags.add("set-rendered-z.set")
        return ("set", zod_defective_shape(t[1], flags, False))
    if k in ("hmap", "bmap"):
        return ("rec", zod_defective_shape(t[1], flags, False), zod_defective_shape(t[2], flags, False))
    if k == "tuple":
        return ("tuple", tuple(zod_defective_shape(x, flags, False) for x in t[1]))
    if k in ("res", "res1"):
        flags.add("result-rendered-union-with-error-object")
        return norm_union([zod_defective_shape(t[1], flags, False), ("obj", (("error", ("str",), False),))])
    raise ValueError(t)


def _canon(s):
    """compare shapes modulo the ("optional", X) wrapper position inside objects (none here) — identity for now"""
    return s


def classify_c05(t, site, mode, got, note):
    """-> list of signatures (without the 'C05 ' prefix)"""
    generic = "%s %s %s -> %s" % (mode, site, rg.skeleton(t), sh.shape_skeleton(got) if got else "unusable(%s)" % note)
    if got is None and site not in ("return", "event", "event-let"):
        return [generic]
    if mode == "zod" and site in ("param", "field"):
        flags = set()
        d = zod_defective_shape(t, flags)
        if flags and got == d:
            return ["zod-schema " + f for f in sorted(flags)]
        return [generic]
    text = ts_text_model(t)
    if site in ("return", "event", "event-let"):
        text = add_types_prefix_model(text)
    d = ts_model_shape(text)
    if d is None and got is None:
        return ["ts-text unparsable-after-namespace-prefixing"]
    if d is not None and got == d and d != rg.M(t):
        return ["ts-text array-of-nullable-unparenthesised"]
    return [generic]
