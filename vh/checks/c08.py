"""C08 — the cache never leaves stale bindings: success means output is current.
Histories of (edit | non-forced run) over one representative edit per output-affecting class, on the CLI path and the
build-script path; after every successful non-forced run the output directory is compared with a forced generation of
the CURRENT sources+configuration into an empty directory (the tool itself is the differential oracle)."""
import itertools
import json
import os
import random

from .. import common, proj, rustgen as rg
from ..common import Verdict
from .c13 import decl_multiset

BASE = {
    "cmd_extra": False, "cmd_name": "get_user", "param_name": "user_id", "param_type": "i32", "param_opt": False, "ret_type": "User",
    "is_async": False, "field_extra": False, "field_type": "String", "field_rename": None, "rename_all": None, "field_skip": False,
    "variant_extra": False, "variant_rename": False, "enum_rename_all": None, "validator_val": 1, "validator_msg": None, "validator_email": False,
    "event_extra": False, "event_payload": "User", "event_name": "user-changed", "channel": False, "channel_type": "String", "noise": 0,
    "mode": "none", "type_mappings": True, "default_parameter_case": "camelCase", "default_field_case": "snake_case", "visualize_deps": False, "labels_file": "shared/labels.rs", "marker_is_enum": False,
    "no_commands": False, "second_file": False, "private_field_type": "u32", "crate_field": False,
    "cmd_rename_all": None, "param_serde_rename": None, "status_serde": True, "channel_name": "on_progress", "validator_range": None, "second_struct_field": "i32",
    "notice_min": 3, "notice_level": "i32", "notice_nested": "u8", "tm_targets": ("string", "string"),
    "same_name_field_rename": False, "same_name_variant_rename": False, "no_events": False, "second_emit_site": True, "cmds_swapped": False, "legacy_file": True,
    "ret_map_value": "u32", "ret_tuple_second": "String", "watch_rename_all": None, "track_is_channel": False,
}

# edit classes: name -> function(state) (toggles, so that sequences compose); "affects": None=always, "zod"=only visible in zod mode
EDITS = [
    ("add-remove-command", lambda s: s.update(cmd_extra=not s["cmd_extra"])),
    ("swap-two-commands-in-their-file", lambda s: s.update(cmds_swapped=not s["cmds_swapped"])),
    # a whole source file with a command of its own disappears / comes back (all other files keep their modification times)
    ("delete-restore-a-source-file-with-a-command", lambda s: s.update(legacy_file=not s["legacy_file"])),
    # the change sits behind the first comma of the Ok type of a Result
    ("result-ok-map-value-type", lambda s: s.update(ret_map_value="String" if s["ret_map_value"] == "u32" else "u32")),
    ("result-ok-tuple-second-slot", lambda s: s.update(ret_tuple_second="bool" if s["ret_tuple_second"] == "String" else "String")),
    ("rename-command", lambda s: s.update(cmd_name="fetch_user" if s["cmd_name"] == "get_user" else "get_user")),
    ("parameter-name", lambda s: s.update(param_name="uid" if s["param_name"] == "user_id" else "user_id")),
    ("parameter-type", lambda s: s.update(param_type="String" if s["param_type"] == "i32" else "i32")),
    ("parameter-optionality", lambda s: s.update(param_opt=not s["param_opt"])),
    ("return-type", lambda s: s.update(ret_type="Vec<User>" if s["ret_type"] == "User" else "User")),
    ("async-sync(control)", lambda s: s.update(is_async=not s["is_async"])),
    ("add-remove-field", lambda s: s.update(field_extra=not s["field_extra"])),
    ("retarget-field", lambda s: s.update(field_type="i64" if s["field_type"] == "String" else "String")),
    ("field-serde-rename", lambda s: s.update(field_rename=None if s["field_rename"] else "displayName")),
    ("struct-rename_all", lambda s: s.update(rename_all=None if s["rename_all"] else "camelCase")),
    ("field-serde-skip", lambda s: s.update(field_skip=not s["field_skip"])),
    ("add-remove-variant", lambda s: s.update(variant_extra=not s["variant_extra"])),
    ("variant-serde-rename", lambda s: s.update(variant_rename=not s["variant_rename"])),
    ("enum-rename_all", lambda s: s.update(enum_rename_all=None if s["enum_rename_all"] else "snake_case")),
    ("validator-value", lambda s: s.update(validator_val=5 if s["validator_val"] == 1 else 1)),
    ("validator-message", lambda s: s.update(validator_msg=None if s["validator_msg"] else "too short")),
    ("validator-email", lambda s: s.update(validator_email=not s["validator_email"])),
    ("add-remove-event", lambda s: s.update(event_extra=not s["event_extra"])),
    ("event-payload-type", lambda s: s.update(event_payload="Status" if s["event_payload"] == "User" else "User")),
    ("event-name", lambda s: s.update(event_name="user-updated" if s["event_name"] == "user-changed" else "user-changed")),
    ("add-remove-channel", lambda s: s.update(channel=not s["channel"])),
    ("channel-message-type", lambda s: s.update(channel_type="User" if s["channel_type"] == "String" else "String", channel=True)),
    ("mode", lambda s: s.update(mode="zod" if s["mode"] == "none" else "none")),
    ("type_mappings", lambda s: s.update(type_mappings=not s["type_mappings"])),
    # changes of the mapping TABLE that keep its key set: every target changed, and targets exchanged between two names
    ("type_mappings-retarget-every-entry", lambda s: s.update(type_mappings=True, tm_targets=tuple({"string": "number", "number": "string"}[t] for t in s["tm_targets"]))),
    ("type_mappings-swap-targets", lambda s: s.update(type_mappings=True, tm_targets=(s["tm_targets"][1], s["tm_targets"][0]) if s["tm_targets"][0] != s["tm_targets"][1] else ("string", "number"))),
    ("default_parameter_case", lambda s: s.update(default_parameter_case="snake_case" if s["default_parameter_case"] == "camelCase" else "camelCase")),
    ("default_field_case", lambda s: s.update(default_field_case="camelCase" if s["default_field_case"] == "snake_case" else "snake_case")),
    # spellings of the case settings that the tool does not know (it falls back to something): a corrected spelling is a changed setting
    ("default_field_case-unknown-spelling", lambda s: s.update(default_field_case={"snake_case": "camel", "camel": "Snake_Case", "Snake_Case": "snake_case"}.get(s["default_field_case"], "camel"))),
    ("default_parameter_case-unknown-spelling", lambda s: s.update(default_parameter_case={"camelCase": "snake", "snake": "camelcase", "camelcase": "camelCase"}.get(s["default_parameter_case"], "snake"))),
    ("visualize_deps", lambda s: s.update(visualize_deps=not s["visualize_deps"])),
    ("retarget-private-field", lambda s: s.update(private_field_type="String" if s["private_field_type"] == "u32" else "u32")),
    ("add-remove-pub(crate)-field", lambda s: s.update(crate_field=not s["crate_field"])),
    ("command-serde-rename_all", lambda s: s.update(cmd_rename_all=None if s["cmd_rename_all"] else "snake_case")),
    # a command's last parameter of type T becomes a channel of T under the same name (and back)
    ("trailing-parameter-becomes-channel-of-its-type", lambda s: s.update(track_is_channel=not s["track_is_channel"])),
    # the rename rule of a command whose only frontend arguments are channels (their keys follow the rule like any parameter's)
    ("channel-only-command-rename_all", lambda s: s.update(watch_rename_all={None: "snake_case", "snake_case": "SCREAMING_SNAKE_CASE", "SCREAMING_SNAKE_CASE": None}[s["watch_rename_all"]])),
    ("parameter-serde-rename", lambda s: s.update(param_serde_rename=None if s["param_serde_rename"] else "theId")),
    ("remove-restore-serde-derive", lambda s: s.update(status_serde=not s["status_serde"])),
    ("rename-channel-parameter", lambda s: s.update(channel_name="on_update" if s["channel_name"] == "on_progress" else "on_progress", channel=True)),
    ("validator-range-on-number", lambda s: s.update(validator_range=None if s["validator_range"] else (1, 99))),
    ("retarget-field-of-nested-type", lambda s: s.update(second_struct_field="String" if s["second_struct_field"] == "i32" else "i32")),
    ("event-only-struct-validator", lambda s: s.update(notice_min=7 if s["notice_min"] == 3 else 3)),
    ("event-only-struct-field-type", lambda s: s.update(notice_level="String" if s["notice_level"] == "i32" else "i32")),
    ("type-nested-in-event-only-struct", lambda s: s.update(notice_nested="bool" if s["notice_nested"] == "u8" else "u8")),
    # an explicit rename that spells the item's own Rust name is not a no-op under a container rename_all: it pins the name
    ("field-rename-equal-to-own-name-under-rename_all", lambda s: s.update(rename_all="camelCase", same_name_field_rename=not s["same_name_field_rename"])),
    ("variant-rename-equal-to-own-name-under-rename_all", lambda s: s.update(enum_rename_all="snake_case", same_name_variant_rename=not s["same_name_variant_rename"])),
    ("delete-generated-file:dependency-graph.txt", "delete:dependency-graph.txt"),
    ("delete-generated-file:dependency-graph.dot", "delete:dependency-graph.dot"),
    ("delete-generated-file:types.ts", "delete:types.ts"),
    ("delete-generated-file:commands.ts", "delete:commands.ts"),
    ("delete-generated-file:index.ts", "delete:index.ts"),
    ("delete-generated-file:events.ts", "delete:events.ts"),
    ("remove-all-commands/restore", lambda s: s.update(no_commands=not s["no_commands"])),
    # the event of `notify` is emitted a second time elsewhere with another payload type (the listener follows the first site)
    ("add-remove-second-emit-site-of-the-same-event", lambda s: s.update(second_emit_site=not s["second_emit_site"])),
    # the last emit disappears: events.ts is no longer part of the output and index.ts must stop re-exporting it
    ("remove-all-events/restore", lambda s: s.update(no_events=not s["no_events"])),
    ("move-type-to-other-file", lambda s: s.update(second_file=not s["second_file"])),
    # a file that holds only a type is renamed: no command moves, no line shifts, no content changes — but the graph listing names the file
    # a declaration with nothing between its braces changes kind: `struct Marker;` <-> `enum Marker {}` (interface {} <-> never)
    ("empty-struct-becomes-empty-enum", lambda s: s.update(marker_is_enum=not s["marker_is_enum"])),
    ("rename-a-types-only-file", lambda s: s.update(labels_file="shared/label_types.rs" if s["labels_file"] == "shared/labels.rs" else "shared/labels.rs")),
    ("comment-noise(control)", lambda s: s.update(noise=s["noise"] + 1)),
]
ZOD_ONLY = {"event-only-struct-validator", "validator-value", "validator-message", "validator-email", "validator-range-on-number"}


def render(s):
    fattrs = []
    if s["field_rename"]:
        fattrs.append('#[serde(rename = "%s")]' % s["field_rename"])
    vargs = "min = %d" % s["validator_val"]
    if s["validator_msg"]:
        vargs += ', message = "%s"' % s["validator_msg"]
    vattr = "#[validate(length(%s)%s)]" % (vargs, ", email" if s["validator_email"] else "")
    idattrs = ["#[validate(range(min = %d, max = %d))]" % s["validator_range"]] if s["validator_range"] else []
    fields = [("id", "i32", idattrs), ("display_name", s["field_type"], fattrs + ([vattr] if s["field_type"] == "String" else [])),
              ("home_dir", "PathBuf", ['#[serde(rename = "home_dir")]'] if s["same_name_field_rename"] else []), ("created_at", "Timestamp"), ("status", "Status"), ("address", "Option<Address>")]
    if s["field_extra"]:
        fields.append(("extra_field", "Option<bool>"))
    fields.append(("secret_token", "String", ["#[serde(skip)]"] if s["field_skip"] else []))
    fields.append(("priv:revision", s["private_field_type"]))
    if s["crate_field"]:
        fields.append(("crate:internal_note", "Option<String>"))
    user = rg.struct_src("User", fields, rename_all=s["rename_all"], derives="Serialize, Deserialize, Validate")
    variants = [("Active", ['#[serde(rename = "on")]'] if s["variant_rename"] else []), ("Disabled", ['#[serde(rename = "Disabled")]'] if s["same_name_variant_rename"] else [])]
    if s["variant_extra"]:
        variants.append(("Pending",))
    status = rg.enum_src("Status", variants, rename_all=s["enum_rename_all"], derives="Serialize, Deserialize" if s["status_serde"] else None)
    status += rg.struct_src("Address", [("street", "String"), ("number", s["second_struct_field"]), ("label", "Option<Label>")])
    ptype = s["param_type"]
    if s["param_opt"]:
        ptype = "Option<%s>" % ptype
    pname = s["param_name"]
    if s["param_serde_rename"]:
        pname = '#[serde(rename = "%s")] %s' % (s["param_serde_rename"], pname)
    params = [(pname, ptype)]
    if s["channel"]:
        params.append((s["channel_name"], "Channel<%s>" % s["channel_type"]))
    cmds = ""
    if not s["no_commands"]:
        first = rg.command_src(s["cmd_name"], params, s["ret_type"], is_async=s["is_async"],
                               post_attrs=['#[serde(rename_all = "%s")]' % s["cmd_rename_all"]] if s["cmd_rename_all"] else ())
        second = rg.command_src("save_user", [("user", "User")], "Result<(), String>")
        cmds += (second + first) if s["cmds_swapped"] else (first + second)
        if s["cmd_extra"]:
            cmds += rg.command_src("extra_cmd", [("flag", "bool")], "Status")
        cmds += rg.command_src("watch_downloads", [("app", "AppHandle"), ("on_progress", "Channel<u32>"), ("on_done_signal", "Channel<Status>")], None,
                               attr='#[tauri::command(rename_all = "%s")]' % s["watch_rename_all"] if s["watch_rename_all"] else "#[tauri::command]")
        cmds += rg.command_src("track_job", [("job_id", "u32"), ("progress", "Channel<Status>" if s["track_is_channel"] else "Status")], "i32")
        cmds += rg.command_src("usage_by_day", [("year", "u16")], "Result<HashMap<String, %s>, String>" % s["ret_map_value"])
        cmds += rg.command_src("first_and_note", [], "Result<(u32, %s), String>" % s["ret_tuple_second"])
    ev = "pub fn notify(app: AppHandle, payload: %s) {\n    %sapp.emit(\"%s\", payload).unwrap();\n}\n\n" % (s["event_payload"], "// " if s["no_events"] else "", s["event_name"])
    if s["second_emit_site"] and not s["no_events"]:
        ev += "pub fn notify_again(app: AppHandle, addr: Address) {\n    app.emit(\"%s\", addr).unwrap();\n}\n\n" % s["event_name"]
    # a struct (with validators and a nested type) that only an event payload reaches
    ev += rg.struct_src("NoticeMeta", [("code", s["notice_nested"])])
    ev += rg.struct_src("Notice", [("text", "String", ['#[validate(length(min = %d, max = 20, message = "notice length"))]' % s["notice_min"]]), ("level", s["notice_level"]), ("meta", "Vec<NoticeMeta>")],
                        derives="Serialize, Deserialize, Validate")
    ev += "pub fn notify_notice(app: AppHandle, n: Notice) {\n    %sapp.emit(\"notice\", n).unwrap();\n}\n\n" % ("// " if s["no_events"] else "")
    if s["event_extra"] and not s["no_events"]:
        ev += "pub fn notify2(app: AppHandle) {\n    app.emit(\"tick\", 1).unwrap();\n}\n\n"
    hdr = rg.PRELUDE + "use std::path::PathBuf;\nuse tauri::{AppHandle, Emitter, ipc::Channel};\nuse validator::Validate;\n\n" + "// noise\n" * s["noise"]
    legacy = [("legacy/export.rs", rg.PRELUDE + rg.command_src("legacy_export", [("format", "String")], "Vec<u8>"))] if s["legacy_file"] and not s["no_commands"] else []
    marker = "#[derive(Serialize, Deserialize)]\npub %s\n\n" % ("enum Marker {}" if s["marker_is_enum"] else "struct Marker;")
    legacy = legacy + [(s["labels_file"], rg.PRELUDE + rg.struct_src("Label", [("text", "String"), ("colour", "Option<String>"), ("marker", "Option<Marker>")]) + marker)]
    if s["second_file"]:
        return [("lib.rs", hdr + user + cmds + ev), ("models/status.rs", rg.PRELUDE + status)] + legacy
    return [("lib.rs", hdr + user + status + cmds + ev)] + legacy


def config_of(s, src, out):
    cfg = {"project_path": src, "output_path": out, "validation_library": s["mode"], "default_parameter_case": s["default_parameter_case"],
           "default_field_case": s["default_field_case"], "visualize_deps": s["visualize_deps"]}
    if s["type_mappings"]:
        cfg["type_mappings"] = {"PathBuf": s["tm_targets"][0], "Timestamp": s["tm_targets"][1]}
    return cfg


def write_state(root, s, path, absolute=False):
    src = os.path.join(root, "src-tauri")
    # like an editor: files whose text is unchanged keep their modification time, files that are gone are removed
    wanted = dict(render(s))
    if os.path.isdir(src):
        for dp, _dn, fn in os.walk(src):
            for f in fn:
                rel = os.path.relpath(os.path.join(dp, f), src)
                if rel not in wanted:
                    os.unlink(os.path.join(dp, f))
    changed = []
    for rel, text in wanted.items():
        fp = os.path.join(src, rel)
        try:
            if open(fp, encoding="utf-8").read() == text:
                continue
        except OSError:
            pass
        changed.append((rel, text))
    common.write_tree(src, changed)
    os.makedirs(src, exist_ok=True)
    out = os.path.join(root, "gen")
    if path == "cli":
        json.dump(config_of(s, src, out), open(os.path.join(root, "cfg.json"), "w"))
    else:
        json.dump({"productName": "app"}, open(os.path.join(root, "tauri.conf.json"), "w"))
        json.dump(config_of(s, src if absolute else "src-tauri", out if absolute else "gen"), open(os.path.join(root, "typegen.json"), "w"))
    return src, out


def run_tool(cli, drv, root, path, hs, force=False):
    if path == "cli":
        argv = [cli, "tauri-typegen", "generate", "-c", os.path.join(root, "cfg.json")]
        if force:
            argv.append("--force")
        return common.run(argv, cwd=root, hash_seed=hs)
    return common.run([drv, "build"], cwd=root, hash_seed=hs)


def reference(cli, root, s, hs):
    """forced generation of the current sources + configuration into an empty directory"""
    ref = os.path.join(root, "ref")
    common.rmtree(ref)
    cfg = config_of(s, os.path.join(root, "src-tauri"), ref)
    json.dump(cfg, open(os.path.join(root, "cfg_ref.json"), "w"))
    r = common.run([cli, "tauri-typegen", "generate", "-c", os.path.join(root, "cfg_ref.json"), "--force"], cwd=root, hash_seed=hs)
    return r, common.read_outputs(ref)


def graph_norm(text):
    import re
    lines = []
    for ln in text.splitlines():
        ln = re.sub(r"[^\s(]*src-tauri/", "src-tauri/", ln)      # the listing prints source paths as given (relative or absolute)
        if ": " in ln and ", " in ln:
            head, tail = ln.split(": ", 1)
            ln = head + ": " + ", ".join(sorted(tail.split(", ")))
        lines.append(ln)
    return sorted(lines)


def compare(now, ref):
    """-> list of (file, kind) for every file the forced generation writes"""
    bad = []
    for f, text in ref.items():
        if f == ".typecache":
            continue
        if f not in now:
            bad.append((f, "missing"))
        elif f.startswith("dependency-graph"):
            # listings follow hash order: compare as multisets of lines, comma lists sorted within a line
            if graph_norm(now[f]) != graph_norm(text):
                bad.append((f, "stale"))
        elif now[f] != text:
            # same declarations in another order is staleness too ("the same content"): the order of the output is a function of the
            # sources (C13), so a forced generation would have written them in the new order
            bad.append((f, "stale" if decl_multiset(now[f]) != decl_multiset(text) else "stale-order"))
    return bad


def run_history(a):
    cli, drv, key, steps, path, mode0, seed = a
    s = dict(BASE)
    s["mode"] = mode0
    root = common.scratch("c08")
    viol = []
    hits = 0
    runs = 0
    try:
        src, out = write_state(root, s, path)
        r0 = run_tool(cli, drv, root, path, seed % 991, force=False)
        runs += 1
        if r0.timed_out:
            return {"inconclusive": "watchdog"}
        if r0.rc != 0 or not os.path.exists(os.path.join(out, "types.ts")):
            return {"blocked": "initial generation failed rc=%s %s" % (r0.rc, (r0.err + r0.out)[-200:])}
        trail = []
        prev_bad = set()
        since = []
        emap = {e[0]: e[1] for e in EDITS}
        for k, (ename, _a, do_run) in enumerate(steps):
            action = emap[ename]
            trail.append(ename + ("" if do_run else "(no run)"))
            since.append(ename)
            if isinstance(action, str):
                f = os.path.join(out, action.split(":", 1)[1])
                if os.path.exists(f):
                    os.unlink(f)
            else:
                action(s)
                write_state(root, s, path)
            if not do_run:
                continue
            r = run_tool(cli, drv, root, path, seed * 7 + k)
            runs += 1
            if r.timed_out:
                return {"inconclusive": "watchdog"}
            if r.rc != 0:
                continue   # a reported failure promises nothing
            if "up to date" in r.out or "No Tauri commands" in r.out:
                hits += 1
            rr, ref = reference(cli, root, s, seed * 7 + k)
            runs += 1
            if rr.rc != 0:
                continue
            now = common.read_outputs(out)
            if s["no_commands"]:
                since = []
                continue   # nothing is generated without commands; a forced run writes nothing either
            bad = set(compare(now, ref))
            blame = "+".join(sorted(set(since)))
            since = []
            new_bad = bad - prev_bad      # staleness that persists from an earlier step was already reported there
            prev_bad = bad
            for (f, kind) in sorted(new_bad):
                viol.append(("C08 %s after edit=%s path=%s file=%s" % (kind, blame, path, f),
                             "history [%s] (mode %s, %s path): after the last non-forced run (exit 0, stdout %r) %s is %s w.r.t. a forced generation of the current sources" % (
                                 " ; ".join(trail), s["mode"], path, r.out.strip().splitlines()[-1][:60] if r.out.strip() else "", f, kind),
                             {"history": trail, "path": path, "initial_mode": mode0, "final_state": {k2: v2 for k2, v2 in s.items()}, "files": [[p, t] for p, t in render(s)]}))
        return {"viol": viol, "hits": hits, "runs": runs, "len": len(steps)}
    finally:
        common.rmtree(root)


def run(tier):
    v = Verdict("C08", "exploration", tier)
    cli = common.build_cli()
    drv = common.build_driver()
    rnd = random.Random(common.seed())
    jobs = []
    names = [e[0] for e in EDITS]
    emap = {e[0]: e[1] for e in EDITS}
    sd = common.seed() * 8000009

    def add(seq, path, mode0, runmask=None):
        steps = [(n, None, True if runmask is None else runmask[i]) for i, n in enumerate(seq)]
        jobs.append((cli, drv, (tuple(seq), path, mode0, tuple(runmask) if runmask else None), steps, path, mode0, sd + len(jobs)))

    # length 1: every edit x both paths x both initial modes
    for n in names:
        for path in ("cli", "build"):
            for mode0 in ("none", "zod"):
                add([n], path, mode0)
    # length 2: exhaustive over ordered pairs on the CLI path (initial mode alternating), sampled on the build path
    pairs = list(itertools.product(names, repeat=2))
    for i, (a, b) in enumerate(pairs):
        add([a, b], "cli", "zod" if i % 2 else "none")
    bp = pairs[:] if tier == "thorough" else rnd.sample(pairs, 150)
    for i, (a, b) in enumerate(bp):
        add([a, b], "build", "zod" if i % 2 else "none")
    # visualisation on, then off together with an edit, then on again: the record written while it was off says nothing about the graph files
    for i, n_ in enumerate(names):
        if n_ in ("visualize_deps", "comment-noise(control)") or n_.startswith("delete-generated-file"):
            continue
        if tier == "quick" and i % 3 != common.seed() % 3:
            continue
        add(["visualize_deps", "visualize_deps", n_, "visualize_deps"], "cli" if i % 2 else "build", "zod" if i % 4 < 2 else "none", runmask=[True, False, True, True])
    # edits without an intermediate run
    for (a, b) in (pairs if tier == "thorough" else rnd.sample(pairs, 150)):
        add([a, b], "cli", rnd.choice(["none", "zod"]), runmask=[False, True])
    # length 3
    n3 = 150 if tier == "quick" else 40000
    for _ in range(n3):
        seq = [rnd.choice(names) for _ in range(3)]
        add(seq, rnd.choice(["cli", "build"]), rnd.choice(["none", "zod"]), runmask=[rnd.random() < 0.7, rnd.random() < 0.7, True])
    if tier == "thorough":
        for _ in range(1500):
            seq = [rnd.choice(names) for _ in range(rnd.randint(4, 7))]
            add(seq, rnd.choice(["cli", "build"]), rnd.choice(["none", "zod"]), runmask=[rnd.random() < 0.6 for _ in seq[:-1]] + [True])
    res = common.pmap(run_history, jobs, chunksize=4)
    covered = set()
    for (job, r) in zip(jobs, res):
        if "inconclusive" in r:
            v.inconclusive.append("watchdog")
            continue
        if "blocked" in r:
            v.blocked += 1
            v.case(job[2], nontrivial=False)
            v.count("blocked:" + r["blocked"][:60])
            continue
        v.case(job[2], nontrivial=r["hits"] >= 0 and r["len"] >= 1, sample={"history": [s[0] + ("" if s[2] else "(no run)") for s in job[3]], "path": job[4], "initial_mode": job[5], "cache_hits": r["hits"]})
        v.count("process_runs", r["runs"])
        v.count("cache_hits_observed", r["hits"])
        for s in job[3]:
            covered.add((s[0], job[4]))
        for (sig, what, wit) in r["viol"]:
            v.violation(sig, what, wit)
    v.extra["edit_classes"] = len(names)
    v.extra["edit_class_x_path_covered"] = len(covered)
    rule = ("a case is one history: an initial generation followed by 1-3 (thorough: up to 7) steps, each an edit from one of %d classes optionally "
            "followed by a non-forced run in a fresh process; after every successful run the output directory is compared (per file, as a set of "
            "declarations) with a forced generation of the current state into an empty directory; all length-1 and all ordered length-2 histories "
            "on the CLI path are enumerated; distinct by (edit sequence, run mask, path, initial mode)" % len(names))
    return v.finish(rule, assumptions=["the tool's own forced generation is the reference (differential oracle)",
                                       "a run that reports failure promises nothing; dependency-graph files are compared as multisets of lines (their order follows hash order)"])
