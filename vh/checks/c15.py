"""C15 — no input makes analysis or generation panic; bad files are isolated.
Monitor X: exit status / signal / 'panicked at' of the real CLI (and of the library entry point through the driver's
catch_unwind); monitor D: a project plus an unparsable file must generate exactly what the project alone generates.
Workloads: (i) grammar-generated exotic Rust, (ii) fuzzed #[serde]/#[validate] payloads inside command-reachable structs,
(iii) real-world corpus (.rs files of the repository, the vendored registry and rust-src) made reachable by synthetic
commands, (iv) truncations / mutations of corpus files, (v) non-Rust text."""
import glob
import os
import random
import re

from .. import common, proj, rustgen as rg
from ..common import Verdict

HDR = rg.PRELUDE + "use tauri::{AppHandle, Emitter, ipc::Channel};\nuse validator::Validate;\n\n"

MB = ["é", "ü", "ñ", "ß", "日", "本", "語", "😀", "→", "ａ", "́", "‍", "И", "ع"]
MSG_BITS = ["a", "b c", "min", "max", ")", "(", ",", "=", "\\\"", "\\\\", "'", "\\n", "\\u{1F600}", "{", "}", "%", " "]


def rand_text(rnd, n):
    return "".join(rnd.choice(MB + MSG_BITS) for _ in range(n))


def validate_payloads(rnd):
    t = rand_text(rnd, rnd.randint(0, 8))
    cands = [
        'length(min = 1, message = "%s")' % t, 'length(message = "%s", max = 3)' % t, 'range(min = -1.5, max = 2, message = "%s")' % t,
        'email(message = "%s")' % t, 'url(message = "%s")' % t, "length", "range", "length()", "range()", "length = 5", 'length(min = "a")',
        "range(min = x::Y, max = CONST)", "length(min = (1))", "length(min = 1,)", "custom(function = \"check_%s\")" % rnd.randint(0, 9),
        'regex(path = *RE, message = "%s")' % t, "nested", "required", "length(equal = 3)", 'message = "%s"' % t, "length(min = 1), length(max = 2)",
        "length(min = 18446744073709551616)", "range(min = 1e400)", "range(min = -0.0, max = 1_0.5_0)", 'contains(pattern = "%s")' % t,
        "length(min = 0x10, max = 0b11)", 'length(message = r#"raw %s"#)' % t.replace('"', ""), "length(message = 'c')", 'length(message = b"bytes")',
        "must_match(other = \"pw\")", "schema(function = \"f\")", "", "length(min = 1) length(max = 2)".replace(") l", "), l"),
        'length(message = "%s", message = "%s")' % (t, t[::-1]), "range(max = -(-5))", 'email, url, length(min = 1, max = 1, message = "%s")' % t,
    ]
    if rnd.random() < 0.35:
        # token soup: any sequence of the attribute's own vocabulary that still lexes (balanced parentheses, commas often missing) —
        # the structured reader gives up on most of these and the text-scanning fallback gets them
        vocab = ["length", "range", "email", "url", "min", "max", "message", "custom", "function", "other", "all", "any", "=", "=", ",", "1", "-2.5", "0",
                 '"check_length"', '"in_range"', '"has (paren) and length("', '"url)"', "limits", "my_range", "lengthy", "x::length", "range_of"]
        out, depth = [], 0
        for _ in range(rnd.randint(2, 14)):
            r = rnd.random()
            if r < 0.22:
                out.append("(")
                depth += 1
            elif r < 0.4 and depth > 0:
                out.append(")")
                depth -= 1
            else:
                out.append(rnd.choice(vocab))
        out.extend(")" * depth)
        return " ".join(out)
    cands += ['custom(function = "check_length") other(1)', 'custom(function = "in_range") limits(0, 5)', "all(length) any(min = 1)", "range) (", "length max(3)",
              'custom(function = "f") length(min = 1)', "length(min = 1) email", "email length(min = 1 max = 2)"]
    return rnd.choice(cands)


def serde_payloads(rnd):
    t = rand_text(rnd, rnd.randint(0, 6)).replace('\\"', "q")
    cands = [
        'rename = "%s"' % t, "rename", "rename = 5", 'rename(serialize = "%s", deserialize = "b")' % t, 'rename_all = "%s"' % t, "rename_all", "skip", "skip = true",
        'skip_serializing_if = "%s"' % t, "default", 'default = "%s"' % t.replace("\\", ""), 'alias = "%s"' % t, "flatten", 'with = "m"', "borrow", 'bound = "T: X"',
        'rename = "a", rename = "b"', "other", 'tag = "%s"' % t, 'untagged', 'rename_all(serialize = "camelCase")', 'rename = r#"%s"#' % t.replace('"', ""), "",
        'rename = "%s", skip' % t, 'deny_unknown_fields', 'rename_all = "camelCase", rename_all = "snake_case"', "transparent", 'crate = "x"', 'remote = "Y"',
    ]
    return rnd.choice(cands)


EXOTIC_TYPES = ["Vec<Vec<Vec<Vec<String>>>>", "[u8; 32]", "&'static [i32]", "Box<dyn Fn(i32) -> i32 + Send>", "impl Into<String>", "fn(i32) -> bool", "*const u8",
                "Option<Box<Self>>", "<T as Trait>::Out", "std::sync::Arc<std::sync::Mutex<Vec<u8>>>", "(i32,)", "()", "!", "[String]", "&mut Vec<u8>", "Cow<'a, str>",
                "PhantomData<T>", "Result<(), Box<dyn std::error::Error>>", "HashMap<String, HashMap<String, HashMap<String, Vec<Option<(i32, (i32, i32))>>>>>",
                "tauri::State<'_, std::sync::Mutex<HashMap<String, Vec<u8>>>>", "Option<>".replace("<>", "<Option<Option<Option<i32>>>>"), "dyn Any", "Wrapper<{ N + 1 }>", "[[u8; 4]; 4]",
                "&'a dyn Trait<'a, T, N>", "Pin<Box<dyn Future<Output = Result<String, String>> + Send + 'static>>", "Vec<impl Trait>", "for<'a> fn(&'a str) -> &'a str",
                "Option<fn()>",
                # paths whose generic arguments sit on a segment that is not the last one, qualified-self paths and turbofish spellings:
                # once flattened to text their brackets no longer pair up the way the text-level helpers assume
                "Result<Page>::Checked<String>", "Vec<HashMap<String>::Entries<u32, bool>>", "BTreeMap<K>::Iter<'a, V>", "HashMap<String, i32>::Entry", "Option<Vec<u8>>::Item",
                "<Vec<T> as IntoIterator>::Item", "<HashMap<K, V> as Index<&K>>::Output", "Result::<(), String>::Ok", "HashMap::<String, Vec<(u8, u8)>>::Keys<'a>",
                "Vec<<T as Trait>::Out>", "Result<<A as B<C, D>>::E, F>", "Outer<A, B>::Inner<C>::Leaf<D, E>", "HashMap<(A, B)>::X<[u8; 2], (C,)>", "Fn(A, B) -> C", "Box<dyn FnMut(Vec<u8>, (i32, i32)) -> Result<(), ()>>",
                "Größe", "データ", "r#type", "r#struct::r#fn", "Result<Vec<Result<Option<Vec<u8>>, ()>>, !>", "HashMap<(i32, i32), [u8; 2]>", "_"]
IDENTS = ["a", "データ", "größe", "r#type", "r#match", "_x", "__", "a1", "ünï", "Ω", "snake_case_name", "x9y", "r#async", "日本語", "camelCase", "SCREAMING", "ä_ö_ü"]


def nested_generic(depth, ctor="Vec"):
    if ctor == "tuple1":
        return "(" * depth + "i32" + ",)" * depth
    if ctor == "Result":
        return "Result<" * depth + "i32" + ", String>" * depth
    if ctor == "HashMap":
        return "HashMap<String, " * depth + "i32" + ">" * depth
    if ctor == "mixed":
        t = "i32"
        for k in range(depth):
            t = ["Option<%s>", "Vec<%s>", "Option<%s>", "HashMap<String, %s>", "Option<%s>", "(u8, %s)"][k % 6] % t
        return t
    return (ctor + "<") * depth + "i32" + ">" * depth


DEEP_CTORS = ["Vec", "Option", "HashSet", "Box", "tuple1", "Result", "HashMap", "mixed"]
DEEP_DEPTHS = [24, 40, 64]


def deep_project(idx):
    """one constructor nested 24 / 40 / 64 levels deep at every site (a small class of its own: when something is exponential in the depth,
    every such input costs the whole CPU budget)"""
    ctor = DEEP_CTORS[idx % len(DEEP_CTORS)]
    ty = nested_generic(DEEP_DEPTHS[(idx // len(DEEP_CTORS)) % len(DEEP_DEPTHS)], ctor)
    return [("lib.rs", HDR + "#[derive(Serialize, Deserialize)]\npub struct Deep%d {\n    pub v: %s,\n}\n\n" % (idx, ty) +
             "#[tauri::command]\npub fn deep_%d(p: %s, ch: Channel<%s>) -> %s {\n    todo!()\n}\n\npub fn deep_ev_%d(app: AppHandle, x: %s) {\n    app.emit(\"deep\", x).unwrap();\n}\n" % (idx, ty, ty, ty, idx, ty))]


def exotic_project(rnd, idx):
    src = [HDR]
    for k in range(rnd.randint(1, 5)):
        sname = "S%d_%d" % (idx, k)
        fields = []
        for j in range(rnd.randint(0, 6)):
            fname = rnd.choice(IDENTS) + ("_%d" % j if rnd.random() < 0.7 else "")
            fty = rnd.choice(EXOTIC_TYPES) if rnd.random() < 0.6 else rg.rust(rg.random_type(rnd, 4, named=(sname,)))
            attrs = []
            if rnd.random() < 0.5:
                attrs.append("#[validate(%s)]" % validate_payloads(rnd))
            if rnd.random() < 0.5:
                attrs.append("#[serde(%s)]" % serde_payloads(rnd))
            if rnd.random() < 0.1:
                attrs.append("#[validate(%s)]" % validate_payloads(rnd))
            fields.append("    %s\n    pub %s: %s," % ("\n    ".join(attrs), fname, fty))
        generics = rnd.choice(["", "<T>", "<'a, T: Clone + 'a, const N: usize>", "<T = String>"])
        src.append("#[derive(Serialize, Deserialize, Validate)]\n#[serde(%s)]\npub struct %s%s {\n%s\n}\n\n" % (serde_payloads(rnd), sname, generics, "\n".join(fields)))
        if rnd.random() < 0.3:
            variants = []
            for j in range(rnd.randint(0, 5)):
                vform = rnd.choice(["V{j}", "V{j}(i32, String)", "V{j} {{ a: i32, b: Vec<u8> }}", "#[serde(@P@)]\n    V{j}", "V{j} = 5", "r#V{j}"])
                variants.append(vform.format(j=j).replace("@P@", serde_payloads(rnd)))
            src.append("#[derive(Serialize, Deserialize)]\n#[serde(%s)]\npub enum E%d_%d {\n    %s\n}\n\n" % (serde_payloads(rnd), idx, k, ",\n    ".join(variants)))
    if rnd.random() < 0.4:
        # non-ASCII type names inside multi-argument constructors (byte offsets vs character positions)
        nm = rnd.choice(["Größe", "データ", "Zoë", "Ñandú", "Ελληνικά"]) + "%d" % idx
        src.append("#[derive(Serialize, Deserialize)]\npub struct %s { pub v: i32 }\n\n" % nm)
        shapes = ["Result<%s, String>", "HashMap<%s, u32>", "(%s, u32)", "BTreeMap<%s, Vec<%s>>", "Result<Vec<(%s, %s)>, %s>", "Option<(u8, %s, %s)>", "HashMap<String, Result<%s, %s>>"]
        for j in range(rnd.randint(1, 3)):
            sh_ = rnd.choice(shapes)
            ty = sh_ % tuple([nm] * sh_.count("%s"))
            src.append("#[tauri::command]\npub fn cu%d_%d(p: %s, ch: Channel<%s>) -> %s {\n    todo!()\n}\n\n" % (idx, j, ty, ty, ty))
            src.append("#[derive(Serialize, Deserialize)]\npub struct Hu%d_%d { pub f: %s }\n\npub fn eu%d_%d(app: AppHandle, x: %s) {\n    app.emit(\"eu\", x).unwrap();\n}\n\n" % (idx, j, ty, idx, j, ty))
    for k in range(rnd.randint(1, 4)):
        params = []
        for j in range(rnd.randint(0, 4)):
            pname = rnd.choice(IDENTS + ["(a, b)", "Point { x, y }", "_", "mut m", "&x", "ref r"]) if rnd.random() < 0.4 else "p%d" % j
            pty = rnd.choice(EXOTIC_TYPES + ["S%d_0" % idx, "Channel<S%d_0>" % idx, "AppHandle", "tauri::State<'_, S%d_0>" % idx, nested_generic(rnd.choice([5, 20, 60]))])
            params.append("%s: %s" % (pname, pty))
        ret = rnd.choice(["", " -> " + rnd.choice(EXOTIC_TYPES), " -> Result<S%d_0, String>" % idx, " -> impl std::future::Future<Output = ()>", " -> " + nested_generic(40)])
        gen = rnd.choice(["", "<R: tauri::Runtime>", "<'a, T>", "<const N: usize>"])
        where = rnd.choice(["", " where T: Clone", ""])
        body = rnd.choice(["todo!()", "app.emit(\"%s\", %s).unwrap(); todo!()" % (rand_text(rnd, 3).replace('\\"', "").replace("\\", ""), rnd.choice(["1", "x", "(1, 2)", "S { a }", "&*y", "z.clone().clone()", "f(g(h()))", "[1, 2][0]", "|| 1", "\"s\"", "1.0e10", "b'x'", "'c'", "!true", "-1", "a as i64", "unsafe { q }",
                                                                                                                                   # expressions with nothing inside where something usually is
                                                                                                                                   "match never {}", "match r { Err(e) => match e {}, Ok(v) => v }", "if c { x } else { y }", "if c { }", "[]", "{}", "loop {}", "()", "vec![]",
                                                                                                                                   "S {}", "f()", "(())", "[(); 0]", "match x { _ => {} }", "if let Some(v) = o { v } else { return }", "&&&x", "x.0.1", "..", "x?"])),
                           "loop { match x { _ if y => { window.emit_to(\"l\", \"e\", v)?; } _ => break } }", "let Some(v) = o else { return; }; webview.emit(\"x\", v).ok();",
                           "async move { app.emit(\"inner\", 1) }.await.unwrap();", "macro_call!(app.emit(\"in-macro\", 1));", "app.emit(CONST_NAME, 1).unwrap();", "app.emit(\"one-arg\").unwrap();",
                           "self.app.emit(\"field\", self.x.y.z).unwrap();", "emit(\"free-fn\", 1);", "app.emit_to(\"only\", \"two\").unwrap();"])
        attr = rnd.choice(["#[tauri::command]", "#[command]", "#[tauri::command(rename_all = \"snake_case\")]", "#[tauri::command(async)]", "#[tauri::command]\n#[serde(%s)]" % serde_payloads(rnd)])
        unsafety = rnd.choice(["", "", "unsafe ", "extern \"C\" ", "const "])
        src.append("%s\npub %s%sfn c%d_%d%s(%s)%s%s {\n    %s\n}\n\n" % (attr, "async " if rnd.random() < 0.4 and not unsafety else "", unsafety, idx, k, gen, ", ".join(params), ret, where, body))
    extras = ["macro_rules! m { ($x:expr) => { $x }; }\n", "impl<T> Trait for S<T> where T: Clone { type Out = T; fn f(&self) -> Self::Out { todo!() } }\n",
              "pub static S: &str = \"%s\";\n" % rand_text(rnd, 5).replace('\\"', "").replace("\\", ""), "#![allow(dead_code)]\n", "extern crate alloc;\n", "pub use self::inner::*;\nmod inner { pub struct Q; }\n",
              "pub union U { a: u32, b: f32 }\n", "pub trait Tr<'a, T: ?Sized> { const C: usize; type A<'b> where Self: 'b; fn g(&'a self) -> Self::A<'a>; }\n",
              "type Alias<T> = Result<T, Box<dyn std::error::Error + Send + Sync>>;\n", "pub const fn cf<const N: usize>() -> [u8; N] { [0; N] }\n"]
    for e in rnd.sample(extras, rnd.randint(0, 4)):
        if e.startswith("#!"):
            src.insert(0, e)
        else:
            src.append(e)
    return [("lib.rs", "".join(src))]


def cyclic_project(rnd, idx):
    """recursive type graphs of every small shape: self loops, 2- and 3-cycles, cycles whose members have exactly one dependency,
    cycles with tails and side branches, long acyclic chains (recursion depth), all reachable from a command and an event"""
    wrap = [lambda t: "Vec<%s>" % t, lambda t: "Option<Box<%s>>" % t, lambda t: "HashMap<String, %s>" % t, lambda t: "Option<%s>" % t,
            lambda t: "Vec<Option<%s>>" % t, lambda t: "(i32, Vec<%s>)" % t, lambda t: "Box<%s>" % t]
    shape = idx % 8
    n = [1, 2, 3, rnd.randint(2, 6), rnd.randint(3, 8), rnd.choice([30, 80, 200]), rnd.randint(2, 5), rnd.randint(4, 9)][shape]
    names = ["N%d_%d" % (idx, i) for i in range(n)]
    deps = {i: [] for i in range(n)}
    if shape <= 3:                      # pure ring: every member has exactly one dependency
        for i in range(n):
            deps[i].append((i + 1) % n)
    elif shape == 4:                    # ring with a tail hanging off and a chord
        for i in range(n - 1):
            deps[i].append(i + 1)
        deps[n - 1].append(rnd.randrange(n - 1))
        deps[rnd.randrange(n)].append(rnd.randrange(n))
    elif shape == 5:                    # long acyclic chain
        for i in range(n - 1):
            deps[i].append(i + 1)
    elif shape == 6:                    # complete digraph incl. self loops
        for i in range(n):
            deps[i] = list(range(n))
    else:                               # random digraph
        for i in range(n):
            deps[i] = [j for j in range(n) if rnd.random() < 0.3]
    src = [HDR]
    for i in range(n):
        fields = ["    pub id: i32,"] + ["    pub f%d: %s," % (k, rnd.choice(wrap)(names[j])) for k, j in enumerate(deps[i])]
        src.append("#[derive(Serialize, Deserialize)]\npub struct %s {\n%s\n}\n\n" % (names[i], "\n".join(fields)))
    src.append("#[tauri::command]\npub fn cyc_%d(root: %s) -> Vec<%s> {\n    todo!()\n}\n\n" % (idx, names[0], names[n - 1]))
    src.append("pub fn cyc_ev_%d(app: AppHandle, p: %s) {\n    app.emit(\"cyc-%d\", p).unwrap();\n}\n\n" % (idx, names[n // 2], idx))
    return [("lib.rs", "".join(src))]


ATTR_NAMES = ["derive", "serde", "validate", "tauri::command", "command", "cfg", "cfg_attr", "doc", "allow", "specta::specta", "path", "test",
              # the same words at other path lengths / positions
              "tauri", "tauri::command::extra", "::tauri::command", "crate::command", "command::tauri", "serde::rename", "validator::validate", "tauri::ipc"]
ATTR_FORMS = ["#[@N@]", "#[@N@ = \"Serialize\"]", "#[@N@ = 5]", "#[@N@()]", "#[@N@[Serialize, Deserialize]]", "#[@N@{Serialize}]", "#[@N@(= x)]", "#[@N@(Serialize = )]",
              "#[@N@(,)]", "#[@N@(rename_all)]", "#[@N@(rename_all = )]", "#[@N@(test)]", "#[@N@ = concat!(\"a\", \"b\")]", "#[@N@(\"literal\")]", "#[@N@(a::b::c(d(e)))]",
              "#[@N@(Serialize, Deserialize)]"]
ATTR_PLACES = ["struct", "enum", "field", "variant", "fn", "param", "mod", "impl", "use", "tuple-struct", "unit-struct"]


def attr_project(idx):
    """every attribute name the analyser looks for, in every syntactic form an attribute can take (bare path, name = value, and
    delimited token lists with anything inside), on every kind of item it visits; next to it an ordinary command / struct / event"""
    n = ATTR_NAMES[idx % len(ATTR_NAMES)]
    f = ATTR_FORMS[(idx // len(ATTR_NAMES)) % len(ATTR_FORMS)]
    place = ATTR_PLACES[(idx // (len(ATTR_NAMES) * len(ATTR_FORMS))) % len(ATTR_PLACES)]
    a = f.replace("@N@", n)
    at = lambda pl: (a + "\n") if place == pl else ""
    ai = lambda pl: (a + " ") if place == pl else ""
    D = "#[derive(Serialize, Deserialize)]\n"
    src = [HDR,
           "%s%spub struct A%d {\n    %spub x: i32,\n    pub y: Option<B%d>,\n}\n\n" % (at("struct"), D, idx, ai("field"), idx),
           "%s%spub enum B%d {\n    %sOne,\n    Two,\n}\n\n" % (D, at("enum"), idx, ai("variant")),
           "%s%spub struct T%d(pub u8, pub String);\n\n%s%spub struct U%d;\n\n" % (at("tuple-struct"), D, idx, D, at("unit-struct"), idx),
           "%s#[tauri::command]\npub fn ac_%d(%sa: A%d, t: T%d, u: U%d) -> Result<B%d, String> {\n    todo!()\n}\n\n" % (at("fn"), idx, ai("param"), idx, idx, idx, idx),
           "%spub mod inner_%d {\n    use super::*;\n    %spub struct C%d {\n        pub z: A%d,\n    }\n    #[tauri::command]\n    pub fn not_top_level_%d() {}\n}\n\n" % (at("mod"), idx, D.replace("\n", "\n    "), idx, idx, idx),
           "%simpl A%d {\n    pub fn helper(&self, app: AppHandle) {\n        app.emit(\"attr-ev-%d\", self.x).unwrap();\n    }\n}\n\n" % (at("impl"), idx, idx),
           "%suse std::collections::BTreeSet;\n\n" % at("use"),
           "pub fn ev_%d(app: AppHandle, p: A%d) {\n    app.emit(\"attr-%d\", p).unwrap();\n}\n" % (idx, idx, idx)]
    return [("lib.rs", "".join(src))]


def collision_project(idx):
    """many claimants on one generated name: commands that derive one TypeScript name three to six times over (platform variants, case
    and underscore variants, a command that is literally called <name>2), structs that occupy <Name>Params / <Name>2Params, events whose
    listener names coincide — every de-duplication loop gets more than one round"""
    k = 3 + idx % 4
    variants = ["get_user", "getUser", "get__user", "get_user_", "GetUser", "_get_user", "get_user2", "getUser2", "get_user_2"]
    names = [variants[(idx + j) % len(variants)] for j in range(k)]
    src = [HDR, "#[derive(Serialize, Deserialize)]\npub struct User { pub id: i32 }\n\n"]
    if idx % 3 == 0:
        names = ["open_settings"] * k                       # one command, k platform-gated implementations
    for j, nm in enumerate(names):
        gate = '#[cfg(target_os = "%s")]\n' % ["linux", "macos", "windows", "ios", "android", "freebsd"][j % 6] if idx % 3 == 0 else ""
        src.append("%s#[tauri::command]\npub fn %s(id: i32, extra_%d: Option<String>) -> User {\n    todo!()\n}\n\n" % (gate, nm, j))
    if idx % 2 == 0:
        for nm in ("GetUserParams", "GetUser2Params", "GetUser3Params", "OpenSettingsParams", "OpenSettings2Params"):
            src.append("#[derive(Serialize, Deserialize)]\npub struct %s { pub v: i32 }\n\n#[tauri::command]\npub fn uses_%s(p: %s) {}\n\n" % (nm, nm.lower(), nm))
    evs = ["user-login", "user_login", "user:login", "user/login", "userLogin", "user-login2", "user_login_2", "user--login"][: 3 + idx % 6]
    src.append("pub fn many_events(app: AppHandle) {\n" + "".join("    app.emit(\"%s\", %d).unwrap();\n" % (e, j) for j, e in enumerate(evs)) + "}\n")
    return [("lib.rs", "".join(src))]


SIZE_LENGTHS = [1, 2, 31, 32, 33, 39, 40, 41, 63, 64, 65, 76, 77, 78, 79, 80, 81, 99, 100, 101, 127, 128, 129, 255, 256, 257, 1000, 5000]
SIZE_PLACES = ["struct-name", "field-name", "field-rename", "enum-name", "variant-name", "variant-rename", "command-name", "parameter-name", "event-name",
               "validator-message", "all-variants", "many-fields", "many-variants", "many-parameters", "many-commands"]
SIZE_ALPHABETS = ["a", "Я", "語", "😀"]          # 1, 2, 3 and 4 bytes per character (the last two only where a string is allowed)


def size_project(idx):
    """one name or string of a boundary length (in characters; 1 to 4 bytes each) at one named position of an otherwise ordinary project,
    or an item with very many members: nothing in a generator may depend on how long or how many (column budgets, chunking, buffers)"""
    place = SIZE_PLACES[idx % len(SIZE_PLACES)]
    n = SIZE_LENGTHS[(idx // len(SIZE_PLACES)) % len(SIZE_LENGTHS)]
    ab = SIZE_ALPHABETS[(idx // (len(SIZE_PLACES) * len(SIZE_LENGTHS))) % len(SIZE_ALPHABETS)]
    is_string = place in ("field-rename", "variant-rename", "event-name", "validator-message")
    if not is_string and ab in ("語", "😀"):
        ab = "ü" if ab == "😀" else "語"                 # identifiers: XID characters only
    upper = place in ("struct-name", "enum-name", "variant-name", "all-variants")
    word = (("A" if upper else "a") + ab * n)[: max(n, 1)] if not is_string else ab * n
    nm = lambda pl, dflt: word if place == pl else dflt
    many = min(n, 300)
    fields = ["    pub %s: i32," % nm("field-name", "plain"), "    #[serde(rename = \"%s\")]\n    pub renamed: String," % nm("field-rename", "wire"),
              "    #[validate(length(min = 1, message = \"%s\"))]\n    pub checked: String," % nm("validator-message", "too short")]
    if place == "many-fields":
        fields += ["    pub f%d: Option<u8>," % k for k in range(many)]
    variants = [nm("variant-name", "First"), "#[serde(rename = \"%s\")]\n    Second" % nm("variant-rename", "second")]
    if place == "all-variants":
        variants = ["%s%d" % (word, k) for k in range(4)]
    if place == "many-variants":
        variants += ["V%d" % k for k in range(many)]
    sname, ename = nm("struct-name", "Rec%d" % idx), nm("enum-name", "Kind%d" % idx)
    params = ["%s: %s" % (nm("parameter-name", "rec"), sname), "kind: Option<%s>" % ename]
    if place == "many-parameters":
        params += ["p%d: u8" % k for k in range(min(many, 100))]
    src = [HDR, "#[derive(Serialize, Deserialize, Validate)]\npub struct %s {\n%s\n}\n\n" % (sname, "\n".join(fields)),
           "#[derive(Serialize, Deserialize)]\npub enum %s {\n    %s,\n}\n\n" % (ename, ",\n    ".join(variants)),
           "#[tauri::command]\npub fn %s(%s) -> Vec<%s> {\n    todo!()\n}\n\n" % (nm("command-name", "cmd_%d" % idx), ", ".join(params), ename),
           "pub fn ev_%d(app: AppHandle, p: %s) {\n    app.emit(\"%s\", p).unwrap();\n}\n" % (idx, sname, nm("event-name", "size-ev"))]
    if place == "many-commands":
        src += ["#[tauri::command]\npub fn extra_cmd_%d(a: %s) -> %s {\n    todo!()\n}\n\n" % (k, sname, ename) for k in range(many)]
    return [("lib.rs", "".join(src))]


NON_RUST = ["", "\n\n\n", "{", "}}}}", "fn", "#[tauri::command]", "#[tauri::command]\npub fn", "\"unterminated", "/* never closed", "'", "r#\"raw never closed",
            "<html><body>not rust</body></html>", "{\"json\": true}", "0x", "#!/bin/sh\necho hi\n", "\ufeff// BOM\nfn ok() {}", "fn a() { b( }", "struct S { a: }", "日本語のテキスト",
            "#[derive(Serialize)] struct", "pub fn f() -> { }", "impl", "fn f(a: i32, ) -> ) {}", "\\", "\x00\x01\x02", "fn main() { let s = \"\\u{110000}\"; }", "#[serde(rename = )] struct S;",
            "macro_rules! m {", "fn f<T>() where {", "a" * 5000, "(" * 300, "[" * 300 + "]" * 300, "fn f() { " + "{" * 200 + "}" * 200 + " }"]


# texts no Rust parser accepts (used where the harness must know that the file is skipped)
DEFINITELY_BROKEN = ["{", "}}}}", "#[tauri::command]\npub fn ghost( {", "#[derive(Serialize)]\npub struct Ghost { a: }", "\"unterminated", "/* never closed", "fn a() { b( }",
                     "pub fn f() -> { }", "<html><body>not rust</body></html>", "fn f(a: i32, ) -> ) {}", "日本語のテキスト です", "struct S { a: }",
                     "#[tauri::command]\npub fn ghost2() -> i32 { 1 \n", "impl", "(" * 50]


def corpus_files():
    roots = [os.path.join(common.REPO, "src"), os.path.join(common.REPO, "tests"), os.path.expanduser("~/.cargo/registry/src"),
             os.path.expanduser("~/.rustup/toolchains")]
    files = []
    for r in roots:
        if not os.path.isdir(r):
            continue
        for d, dirs, fs in os.walk(r):
            if "/target/" in d + "/" or "/.git/" in d + "/":
                continue
            for f in fs:
                if f.endswith(".rs"):
                    files.append(os.path.join(d, f))
    files.sort()
    return files


def reach_cmds(text, k):
    """a synthetic command naming the file's structs/enums so that the type discovery reaches them"""
    names = re.findall(r"\b(?:struct|enum)\s+([A-Z][A-Za-z0-9_]*)", text)[:12]
    if not names:
        return ""
    params = ", ".join("p%d: %s" % (i, n) for i, n in enumerate(names))
    return "#[tauri::command]\npub fn reach_%d(%s) -> Vec<%s> { todo!() }\n" % (k, params, names[0])


CPU_BUDGET = 40      # CPU-seconds per tool run (typical: a few hundredths); exhausting it is non-termination for every practical purpose


def classify_run(r):
    if r.rc == -24 or (r.rc == -9 and not r.timed_out):
        return "cpu-budget-exhausted(%ds)" % CPU_BUDGET        # SIGXCPU (or the hard limit's SIGKILL): load-independent, unlike the watchdog
    if r.timed_out:
        return "timeout"
    if r.rc is not None and r.rc < 0:
        return "signal-%d" % (-r.rc)
    if "panicked at" in r.err or r.rc == 101:
        m = re.search(r"panicked at ([^:\n]+):(\d+)", r.err)
        return "panic@%s" % (m.group(1).split("/src/")[-1] if m else "?")
    if r.rc not in (0, 1):
        return "exit-%s" % r.rc
    return None


def run_batch(a):
    """one project holding several inputs; on abnormal termination the batch is bisected down to single inputs"""
    cli, drv, kind, items, mode, via = a
    # items: list of (label, [(path, text)])
    def go(sub):
        files = []
        for n, (label, fl) in enumerate(sub):
            for (p, t) in fl:
                files.append(("i%d/%s" % (n, p), t))
        root = common.scratch("c15")
        try:
            common.write_tree(os.path.join(root, "src"), files)
            if via == "driver":
                import json
                json.dump({"project_path": os.path.join(root, "src"), "output_path": os.path.join(root, "out"), "validation_library": mode, "verbose": len(sub) % 2 == 1,
                           "visualize_deps": len(sub) % 3 == 1}, open(os.path.join(root, "cfg.json"), "w"))
                r = common.run([drv, "gen", os.path.join(root, "cfg.json")], cwd=root, timeout=120, cpu_limit=CPU_BUDGET)
            else:
                # "cli+viz" / "cli+verbose": the options add code paths of their own (graph rendering, listings of what was found)
                r = common.cli_generate(cli, project=os.path.join(root, "src"), out=os.path.join(root, "out"), mode=mode, cwd=root, timeout=120,
                                        viz="viz" in via, verbose="verbose" in via, cpu_limit=CPU_BUDGET)
            counts["files_reported_unparsable"] += r.err.count("Failed to parse")
            counts["files_given"] += len(files)
            return classify_run(r), r
        finally:
            common.rmtree(root)
    counts = {"files_reported_unparsable": 0, "files_given": 0}
    bad = []
    stack = [items]
    runs = 0
    while stack:
        sub = stack.pop()
        cls, r = go(sub)
        runs += 1
        if cls is None:
            continue
        if len(sub) == 1:
            bad.append((sub[0][0], cls, (r.err or "")[-300:], sub[0][1]))
        else:
            mid = len(sub) // 2
            stack.append(sub[:mid])
            stack.append(sub[mid:])
    return {"bad": bad, "n": len(items), "runs": runs, "counts": counts}


def run_isolation(a):
    cli, idx, seed, mode = a
    rnd = random.Random(seed)
    from .. import compound
    files = compound.render(compound.gen(rnd, idx, nfiles=rnd.randint(1, 4)))
    root = common.scratch("c15i")
    try:
        g1 = proj.generate(cli, files, mode=mode, root=root, out_name="out_a", src_name="src_a", hash_seed=1)
        bad_files = [(rnd.choice(["broken.rs", "sub/zz.rs", "0_first.rs", "a/b/c.rs"]) if k == 0 else "more/bad%d.rs" % k, rnd.choice(DEFINITELY_BROKEN))
                     for k in range(rnd.randint(1, 3))]
        g2 = proj.generate(cli, files + bad_files, mode=mode, root=root, out_name="out_b", src_name="src_b", hash_seed=1)
        c1, c2 = classify_run(g1.run), classify_run(g2.run)
        if c1 or c2:
            return {"viol": [("C15 abnormal-termination %s" % (c1 or c2), "isolation project: %s" % (g1.run.err + g2.run.err)[-300:], files + bad_files)]}
        o1, o2 = common.read_outputs(g1.out), common.read_outputs(g2.out)
        ts1 = {k: v for k, v in o1.items() if k.endswith(".ts")}
        ts2 = {k: v for k, v in o2.items() if k.endswith(".ts")}
        reported = all(("Failed to parse" in g2.run.err) for _ in [0])
        viol = []
        if g1.run.rc != g2.run.rc:
            viol.append(("C15 unparsable-file-changes-exit-status", "exit %s without, %s with the unparsable file(s) %s" % (g1.run.rc, g2.run.rc, [b[0] for b in bad_files]), files + bad_files))
        elif ts1 != ts2:
            diff = [k for k in set(ts1) | set(ts2) if ts1.get(k) != ts2.get(k)]
            viol.append(("C15 unparsable-file-changes-output files=%s" % "+".join(sorted(diff)), "adding unparsable %s changed %s" % ([b[0] for b in bad_files], diff), files + bad_files))
        if not reported:
            viol.append(("C15 unparsable-file-not-reported", "stderr does not report the skipped file(s)", files + bad_files))
        return {"viol": viol}
    finally:
        common.rmtree(root)


def miri_screen(a):
    """supplementary screen (thorough tier): the analysis layer on one exotic input under the Miri interpreter"""
    idx, files = a
    import subprocess
    crate = os.path.join(common.TARGET, "driver_crate_" + common._repo_tag())
    root = common.scratch("c15m")
    try:
        common.write_tree(os.path.join(root, "src"), files)
        env = dict(os.environ, MIRIFLAGS="-Zmiri-disable-isolation", CARGO_TARGET_DIR=os.path.join(common.TARGET, "miri"), CARGO_NET_OFFLINE="true")
        try:
            p = subprocess.run(["cargo", "+nightly", "miri", "run", "--offline", "--manifest-path", os.path.join(crate, "Cargo.toml"), "--", "analyze", os.path.join(root, "src")],
                               env=env, capture_output=True, text=True, timeout=900)
        except subprocess.TimeoutExpired:
            return {"status": "timeout"}
        if "Undefined Behavior" in p.stderr:
            return {"status": "ub", "detail": p.stderr[-600:], "files": files}
        if "RESULT panic" in p.stdout or "panicked at" in p.stderr:
            return {"status": "panic", "detail": p.stderr[-400:], "files": files}
        if "RESULT ok" in p.stdout or "RESULT err" in p.stdout:
            return {"status": "ok"}
        return {"status": "unavailable", "detail": p.stderr[-300:]}
    finally:
        common.rmtree(root)


def memcheck_screen(a):
    """supplementary screen (thorough tier): the release CLI on one input under valgrind memcheck (both modes, with the dependency
    graph): an invalid read / write or a use of uninitialised memory anywhere in the process, dependencies included, is reported"""
    rel, idx, files, mode = a
    import shutil
    vg = shutil.which("valgrind")
    if not vg:
        return {"status": "unavailable"}
    root = common.scratch("c15v")
    try:
        common.write_tree(os.path.join(root, "src"), files)
        r = common.run([vg, "--error-exitcode=99", "--leak-check=no", "-q", rel, "tauri-typegen", "generate", "-p", os.path.join(root, "src"),
                        "-o", os.path.join(root, "out"), "-v", mode, "--visualize-deps"], cwd=root, timeout=600)
        if r.timed_out:
            return {"status": "timeout"}
        if r.rc == 99 or "Invalid read" in r.err or "Invalid write" in r.err or "uninitialised" in r.err:
            return {"status": "memcheck-error", "detail": r.err[-800:], "files": files}
        if r.abnormal():
            return {"status": "abnormal", "detail": "rc=%s %s" % (r.rc, r.err[-300:]), "files": files}
        return {"status": "clean"}
    finally:
        common.rmtree(root)


def mutate(rnd, text):
    if not text:
        return text
    r = rnd.random()
    if r < 0.35:
        return text[: rnd.randrange(len(text))]
    if r < 0.55:
        i = rnd.randrange(len(text))
        return text[:i] + rnd.choice(MB + ["\"", "'", "(", ")", "{", "}", "<", ">", "#", "\\", ","]) + text[i:]
    if r < 0.75:
        i = rnd.randrange(len(text))
        j = min(len(text), i + rnd.randint(1, 40))
        return text[:i] + text[j:]
    if r < 0.9:
        # swap an attribute's payload
        return re.sub(r"#\[(serde|validate)\(([^\]]*)\)\]", lambda m: "#[%s(%s)]" % (m.group(1), validate_payloads(rnd) if m.group(1) == "validate" else serde_payloads(rnd)), text, count=3)
    i = rnd.randrange(len(text))
    j = rnd.randrange(len(text))
    a, b = min(i, j), max(i, j)
    return text[:a] + text[a:b][::-1] + text[b:]


def run(tier):
    v = Verdict("C15", "exploration", tier)
    cli = common.build_cli()
    drv = common.build_driver()
    rnd = random.Random(common.seed())
    jobs = []
    meta = []

    def add(kind, items, mode, via="cli", bsize=10):
        for k in range(0, len(items), bsize):
            jobs.append((cli, drv, kind, items[k:k + bsize], mode, via))

    ngen = 3000 if tier == "quick" else 100000
    gen_items = [("exotic-%d" % i, exotic_project(random.Random(common.seed() * 1000 + i), i)) for i in range(ngen)]
    add("generated", gen_items[: ngen // 2], "none")
    add("generated", gen_items[ngen // 2:], "zod")
    add("generated", gen_items[:: max(1, ngen // 300)], "zod", via="driver")
    add("generated", gen_items[1:: max(1, ngen // 600)], "none", via="cli+viz")
    add("generated", gen_items[2:: max(1, ngen // 600)], "zod", via="cli+viz+verbose")
    ncyc = 240 if tier == "quick" else 8000
    cyc_items = [("cyclic-%d" % i, cyclic_project(random.Random(common.seed() * 7919 + i), i)) for i in range(ncyc)]
    for k, (mode, via) in enumerate([("none", "cli"), ("zod", "cli"), ("none", "cli+viz"), ("zod", "cli+viz"), ("zod", "cli+verbose"), ("none", "driver")]):
        add("recursive-types", cyc_items[k::6] if tier != "quick" else cyc_items, mode, via=via, bsize=1 if "viz" in via else 8)
    nattr = len(ATTR_NAMES) * len(ATTR_FORMS) * len(ATTR_PLACES)
    attr_items = [("attr-form-%d" % i, attr_project(i)) for i in range(nattr)]
    if tier == "quick":
        off = common.seed() % 2
        add("attribute-forms", attr_items[off::2], "zod" if off else "none", bsize=16)
        add("attribute-forms", attr_items[1 - off::2], "none" if off else "zod", bsize=16)
    else:
        add("attribute-forms", attr_items, "none", bsize=16)
        add("attribute-forms", attr_items, "zod", bsize=16)
        add("attribute-forms", attr_items, "zod", via="driver", bsize=16)
    coll = [("name-collisions-%d" % i, collision_project(i)) for i in range(24 if tier == "quick" else 240)]
    for k, (mode, via) in enumerate([("none", "cli"), ("zod", "cli"), ("zod", "driver")]):
        add("name-collisions", coll[k::3] if tier == "quick" else coll, mode, via=via, bsize=1)
    nsize = len(SIZE_PLACES) * len(SIZE_LENGTHS) * len(SIZE_ALPHABETS)
    size_items = [("size-%d" % i, size_project(i)) for i in range(nsize)]
    if tier == "quick":
        off = common.seed() % 2
        add("sizes", size_items[off::2], "zod", bsize=12)
        add("sizes", size_items[1 - off::2], "none", bsize=12)
        add("sizes", size_items[off::14], "zod", via="driver", bsize=12)
    else:
        for (mode, via) in [("none", "cli"), ("zod", "cli"), ("zod", "driver"), ("none", "cli+viz+verbose")]:
            add("sizes", size_items, mode, via=via, bsize=12)
    deep_items = [("deep-%d" % i, deep_project(i)) for i in range(len(DEEP_CTORS) * len(DEEP_DEPTHS))]
    add("deep-nesting", deep_items, "none", bsize=6)
    add("deep-nesting", deep_items, "zod", bsize=6)
    nonrust = [("non-rust-%d" % i, [("f.rs", t), ("ok.rs", "#[tauri::command]\npub fn ok_cmd() {}\n")]) for i, t in enumerate(NON_RUST)]
    add("non-rust", nonrust, "none", bsize=4)
    add("non-rust", nonrust, "zod", via="driver", bsize=4)
    # the same texts with nothing parsable next to them (and trees without any source file), under every output option: the
    # counts the tool reports and derives (files parsed, commands found) are all zero then
    alone = [("non-rust-alone-%d" % i, [("f.rs", t)]) for i, t in enumerate(NON_RUST)] + [("no-rs-files", [("notes.txt", "nothing to see")]), ("empty-rs-only", [("a.rs", ""), ("b/c.rs", "\n")])]
    for k, (mode, via) in enumerate([("none", "cli"), ("zod", "cli+verbose"), ("none", "cli+viz+verbose"), ("zod", "cli+viz"), ("none", "driver")]):
        add("nothing-parsable", alone if tier != "quick" else alone[k % 2::2] + alone[-2:], mode, via=via, bsize=1)
    corpus = corpus_files()
    rnd.shuffle(corpus)
    ncorp = 1500 if tier == "quick" else len(corpus)
    citems = []
    mitems = []
    nmut = 1500 if tier == "quick" else 200000
    for i, path in enumerate(corpus[:ncorp]):
        try:
            text = open(path, encoding="utf-8", errors="strict").read()
        except (OSError, UnicodeDecodeError):
            continue
        if len(text) > 400000:
            continue
        citems.append((path, [("c.rs", text), ("reach.rs", reach_cmds(text, i))]))
    for i in range(nmut):
        path = corpus[rnd.randrange(min(len(corpus), max(ncorp, 3000)))]
        try:
            text = open(path, encoding="utf-8", errors="strict").read()
        except (OSError, UnicodeDecodeError):
            continue
        if len(text) > 100000:
            continue
        mt = mutate(rnd, text)
        mitems.append(("mutant-of:" + path, [("m.rs", mt), ("reach.rs", reach_cmds(text, i))]))
    add("corpus", citems[: len(citems) // 2], "none", bsize=25)
    add("corpus", citems[len(citems) // 2:], "zod", bsize=25)
    add("corpus-mutant", mitems[: len(mitems) // 2], "zod", bsize=25)
    add("corpus-mutant", mitems[len(mitems) // 2:], "none", bsize=25)
    res = common.pmap(run_batch, jobs, chunksize=1)
    for (job, r) in zip(jobs, res):
        kind = job[2]
        v.evaluations += r["n"]
        v.count("inputs_" + kind, r["n"])
        v.count("process_runs", r["runs"])
        v.count("source_files_given_" + kind, r["counts"]["files_given"])
        v.count("source_files_the_tool_reported_as_unparsable_" + kind, r["counts"]["files_reported_unparsable"])
        for (label, cls, err, files) in r["bad"]:
            if cls == "timeout":
                v.inconclusive.append("watchdog on %s" % label)
                continue
            v.violation("C15 abnormal-termination %s" % cls, "%s input %s (%s mode via %s): %s | %s" % (kind, label, job[4], job[5], cls, err.strip()[-200:]),
                        {"files": [[p, t] for (p, t) in files], "mode": job[4], "via": job[5]})
    v.nontrivial = set(range(sum(r["n"] for r in res)))
    # isolation
    niso = 150 if tier == "quick" else 6000
    ijobs = [(cli, i, common.seed() * 150001 + i, "none" if i % 2 else "zod") for i in range(niso)]
    for r in common.pmap(run_isolation, ijobs, chunksize=2):
        v.evaluations += 1
        v.count("isolation_projects")
        for (sig, what, files) in r["viol"]:
            v.violation(sig, what, {"files": [[p, t] for (p, t) in files]})
    if tier == "thorough":
        # release build (no overflow checks / debug assertions: other code paths) on a sample, and the Miri screen
        try:
            rel = common.build_cli_release()
            rjobs = []
            for k in range(0, min(len(gen_items), 3000), 10):
                rjobs.append((rel, drv, "generated-release", gen_items[k:k + 10], "zod" if k % 20 else "none", "cli"))
            for (job, r) in zip(rjobs, common.pmap(run_batch, rjobs, chunksize=1)):
                v.evaluations += r["n"]
                v.count("inputs_generated_release_build", r["n"])
                for (label, cls, err, files) in r["bad"]:
                    if cls != "timeout":
                        v.violation("C15 abnormal-termination %s (release build)" % cls, "%s: %s | %s" % (label, cls, err.strip()[-200:]), {"files": [[p2, t2] for (p2, t2) in files], "build": "release"})
        except common.Inconclusive as e:
            v.extra["release_build"] = "unavailable: %s" % str(e)[:200]
        mj = [(i, exotic_project(random.Random(common.seed() * 77 + i), i)) for i in range(32)]
        statuses = {}
        for r in common.pmap(miri_screen, mj, workers=8):
            statuses[r["status"]] = statuses.get(r["status"], 0) + 1
            if r["status"] == "ub":
                v.violation("C15 miri-undefined-behaviour", r["detail"], {"files": [[p2, t2] for (p2, t2) in r["files"]]})
            elif r["status"] == "panic":
                v.violation("C15 abnormal-termination panic (under miri)", r["detail"], {"files": [[p2, t2] for (p2, t2) in r["files"]]})
        v.extra["miri_screen"] = statuses
        try:
            rel = common.build_cli_release()
            vj = [(rel, i, exotic_project(random.Random(common.seed() * 131 + i), i), "zod" if i % 2 else "none") for i in range(96)]
            vj += [(rel, 1000 + i, cyclic_project(random.Random(common.seed() * 137 + i), i), "zod" if i % 2 else "none") for i in range(32)]
            vstat = {}
            for r in common.pmap(memcheck_screen, vj, workers=16):
                vstat[r["status"]] = vstat.get(r["status"], 0) + 1
                if r["status"] == "memcheck-error":
                    v.violation("C15 memcheck-error", r["detail"], {"files": [[p2, t2] for (p2, t2) in r["files"]], "build": "release under valgrind memcheck"})
                elif r["status"] == "abnormal":
                    v.violation("C15 abnormal-termination (release build under valgrind)", r["detail"], {"files": [[p2, t2] for (p2, t2) in r["files"]]})
            v.extra["memcheck_screen"] = vstat
        except common.Inconclusive as e:
            v.extra["memcheck_screen"] = "unavailable: %s" % str(e)[:200]
    v.samples = [{"class": "generated", "example": gen_items[0][1][0][1][:400]}, {"class": "corpus", "files": [c[0] for c in citems[:3]]},
                 {"class": "non-rust", "example": NON_RUST[8]}]
    v.extra["corpus_files_available"] = len(corpus)
    rule = ("a case is one input (a generated exotic source file, a fuzzed attribute payload inside a command-reachable struct, a corpus file with a "
            "synthetic command naming its types, a mutated corpus file, or non-Rust text) run through the real CLI (and a sample through the library "
            "entry point with catch_unwind); inputs are batched per process and a failing batch is bisected to the single input; distinct inputs are "
            "counted as generated; plus isolation projects (project vs project + unparsable files)")
    return v.finish(rule, assumptions=["acceptable exits are 0 and 1; nesting depth of generated syntax <= 64 (DESIGN 4.2)", "dev profile (overflow checks and debug assertions on)"])
