"""C13 — output is a deterministic function of sources and configuration.
Differential monitor: the same project is generated under many replayable hash seeds (getrandom shim), OS-entropy
processes and permuted directory-creation orders (tmpfs readdir order), with --verbose / --visualize-deps, and after
semantics-preserving source transformations; outputs are compared byte-wise (timestamp line stripped) or as
multisets of declarations (token sequences)."""
import os
import random

from .. import rustgen as rg, common, compound, proj, tsparse
from ..common import Verdict

TS = ("types.ts", "commands.ts", "events.ts", "index.ts")


def decl_multiset(text):
    """split a generated module into top-level declarations (token sequences, comments dropped)"""
    toks, _ = tsparse.lex(text)
    chunks = []
    cur = []
    for t in toks:
        if t.k == "eof":
            break
        if t.col == 0 and t.k == "id" and t.v in ("export", "import") and cur:
            chunks.append(tuple(cur))
            cur = []
        cur.append(t.raw)
    if cur:
        chunks.append(tuple(cur))
    return sorted(chunks)


def decl_order(text):
    toks, _ = tsparse.lex(text)
    names = []
    for i, t in enumerate(toks):
        if t.col == 0 and t.k == "id" and t.v == "export":
            for u in toks[i + 1:i + 5]:
                if u.k == "id" and u.v not in ("async", "function", "const", "type", "interface"):
                    names.append(u.v)
                    break
    return tuple(names)


def gen_out(cli, root, files_list, mode, hs, tag, verbose=False, viz=False, src_name="src"):
    g = proj.generate(cli, files_list, mode=mode, hash_seed=hs, root=root, out_name="out_" + tag, src_name=src_name, verbose=verbose, viz=viz)
    if g.run.timed_out:
        return None, "watchdog"
    if g.run.rc != 0:
        return None, "rc=%s %s" % (g.run.rc, g.run.err[-200:])
    outs = common.read_outputs(g.out)
    return outs, None


def diff_kind(a, b):
    """compare two output dicts -> list of (file, kind) with kind in missing|order|content"""
    res = []
    for f in sorted(set(a) | set(b)):
        if not f.endswith(".ts"):
            continue
        if f not in a or f not in b:
            res.append((f, "file-set"))
        elif a[f] != b[f]:
            res.append((f, "order" if decl_multiset(a[f]) == decl_multiset(b[f]) else "content"))
    return res


def run_case(a):
    cli, idx, seed, mode, nseeds, ntrans = a[:6]
    drv = a[6] if len(a) > 6 else None
    rnd = random.Random(seed)
    files = compound.gen(rnd, idx)
    if idx % 9 == 7:
        files = compound.events_only(files, idx)
    dup_names = idx % 5 == 3
    if dup_names:
        # one type name defined in several files (different modules of one crate) with different bodies: whichever definition the
        # tool settles on, it has to be the same one on every run
        tn = [it.name for its in files.values() for it in its if it.kind == "type"]
        for k, nm in enumerate(tn[:2]):
            for j, path in enumerate(["billing/model_%d.rs" % k, "shipping/model_%d.rs" % k, "a_first_%d.rs" % k]):
                files.setdefault(path, []).append(compound.Item("type", nm, rg.struct_src(nm, [("dup_%d_%d" % (k, j), "i32"), ("only_in_%d" % j, "String")])))
    root = common.scratch("c13")
    viol = []
    stats = {"runs": 0, "distinct_bytes": set(), "distinct_orders": set()}
    try:
        base_list = compound.render(files)
        base, err = gen_out(cli, root, base_list, mode, seed % 1000, "base")
        stats["runs"] += 1
        if base is None:
            return {"blocked": err}
        sig0 = tuple(sorted((f, t) for f, t in base.items() if f.endswith(".ts")))
        stats["distinct_bytes"].add(hash(sig0))
        stats["distinct_orders"].add(tuple(decl_order(base.get(f, "")) for f in TS))
        wit = lambda extra: proj.witness_of(base_list, mode, extra=extra)
        # (1) schedules: hash seeds, OS entropy, directory creation order
        for k in range(nseeds):
            hs = None if k >= nseeds - 2 else seed * 31 + k
            order = list(files)
            rnd.shuffle(order)
            src_name = "src_k%d" % k   # a fresh source dir so that tmpfs readdir order follows the new creation order
            o, err = gen_out(cli, root, compound.render(files, order), mode, hs, "k%d" % k, src_name=src_name)
            stats["runs"] += 1
            if o is None:
                viol.append(("C13 run-fails-under-some-schedule", "hash seed %s: %s" % (hs, err), wit({"hash_seed": hs})))
                continue
            stats["distinct_bytes"].add(hash(tuple(sorted((f, t) for f, t in o.items() if f.endswith(".ts")))))
            stats["distinct_orders"].add(tuple(decl_order(o.get(f, "")) for f in TS))
            for (f, kind) in diff_kind(base, o):
                viol.append(("C13 schedule-changes-%s file=%s mode=%s" % (kind, f, mode),
                             "same sources, hash seed %s vs %s, creation order %s: %s differs (%s)" % (seed % 1000, hs, order, f, kind), wit({"hash_seeds": [seed % 1000, hs], "creation_order": order})))
        # (2) verbosity / visualisation
        hs0 = seed % 1000
        o, err = gen_out(cli, root, None, mode, hs0, "verbose", verbose=True)
        stats["runs"] += 1
        if o is not None:
            for (f, kind) in diff_kind(base, o):
                viol.append(("C13 verbose-changes-%s file=%s" % (kind, f), "--verbose changes %s (%s)" % (f, kind), wit({"flag": "--verbose"})))
        o, err = gen_out(cli, root, None, mode, hs0, "viz", viz=True)
        stats["runs"] += 1
        if o is not None:
            for (f, kind) in diff_kind(base, o):
                viol.append(("C13 visualize-deps-changes-%s file=%s" % (kind, f), "--visualize-deps changes %s (%s)" % (f, kind), wit({"flag": "--visualize-deps"})))
            extra = sorted(set(o) - set(base))
            if extra != ["dependency-graph.dot", "dependency-graph.txt"]:
                viol.append(("C13 visualize-deps-file-set", "--visualize-deps adds %s instead of its two files" % extra, wit({"flag": "--visualize-deps"})))
            # the two graph files are files of the run like any other: identical sources and settings, identical files
            for k, hs in enumerate((seed * 31 + 5, seed * 31 + 6, None)):
                o2, err = gen_out(cli, root, None, mode, hs, "viz%d" % k, viz=True)
                stats["runs"] += 1
                if o2 is None:
                    continue
                stats["graph_file_pairs_compared"] = stats.get("graph_file_pairs_compared", 0) + 2
                for f in ("dependency-graph.dot", "dependency-graph.txt"):
                    if o.get(f) != o2.get(f):
                        viol.append(("C13 schedule-changes-content file=%s mode=%s" % (f, mode), "same sources and settings with --visualize-deps, hash seed %s vs %s: %s differs" % (hs0, hs, f),
                                     wit({"flag": "--visualize-deps", "hash_seeds": [hs0, hs]})))
                        break
        # (2a) the same directories spelled differently on the command line (relative, ./, trailing slash, dot segments, doubled slash)
        import os as _os
        for k, (sp_src, sp_out) in enumerate([("./src", "./out_sp0"), ("src/", "out_sp1/"), ("./src/../src", "./x/../out_sp2"), (_os.path.join(root, "src") + "/", root + "//out_sp3")]):
            r = common.run([cli, "tauri-typegen", "generate", "-p", sp_src, "-o", sp_out, "-v", mode], cwd=root, hash_seed=hs0)
            stats["runs"] += 1
            if r.timed_out:
                continue
            got = common.read_outputs(_os.path.join(root, "out_sp%d" % k)) if r.rc == 0 else None
            if got is None or not got:
                viol.append(("C13 path-spelling run-fails-or-writes-elsewhere spelling=%d" % k, "-p %s -o %s (cwd = project root): rc=%s, files in the named directory: %s; %s" % (
                    sp_src, sp_out, r.rc, sorted(got or {}), (r.err + r.out)[-160:]), wit({"spelling": [sp_src, sp_out]})))
                continue
            for (f, kind) in diff_kind(base, got):
                viol.append(("C13 path-spelling-changes-%s file=%s" % (kind, f), "-p %s -o %s: %s differs from the run with absolute paths (%s)" % (sp_src, sp_out, f, kind), wit({"spelling": [sp_src, sp_out]})))
        for k, (cwd_rel, sp_src, sp_out) in enumerate([("src", ".", "../out_sp4"), ("work/a/b", "../../../src", "../../../out_sp5")], start=4):
            _os.makedirs(_os.path.join(root, cwd_rel), exist_ok=True)
            r = common.run([cli, "tauri-typegen", "generate", "-p", sp_src, "-o", sp_out, "-v", mode], cwd=_os.path.join(root, cwd_rel), hash_seed=hs0)
            stats["runs"] += 1
            if r.timed_out:
                continue
            got = common.read_outputs(_os.path.join(root, "out_sp%d" % k)) if r.rc == 0 else None
            if not got:
                viol.append(("C13 path-spelling run-fails-or-writes-elsewhere spelling=%d" % k, "cwd %s, -p %s -o %s: rc=%s, nothing in the named directory; %s" % (
                    cwd_rel, sp_src, sp_out, r.rc, (r.err + r.out)[-160:]), wit({"spelling": [cwd_rel, sp_src, sp_out]})))
                continue
            for (f, kind) in diff_kind(base, got):
                viol.append(("C13 path-spelling-changes-%s file=%s" % (kind, f), "cwd %s, -p %s -o %s: %s differs from the run with absolute paths (%s)" % (cwd_rel, sp_src, sp_out, f, kind), wit({"spelling": [cwd_rel, sp_src, sp_out]})))
        # (2c) what the output directory held before is not an input: a directory with the (longer) files of an earlier project state,
        #      with and without that state's cache record, ends up like a fresh one
        for k, keep_cache in enumerate((False, True)):
            od = _os.path.join(root, "out_prev%d" % k)
            _os.makedirs(od, exist_ok=True)
            for f, t in base.items():
                if f.endswith(".ts"):
                    open(_os.path.join(od, f), "w").write(t + "\n// ---- what an earlier, larger state of the project had here\n" + t.replace("export ", "export /* earlier */ ") * 2)
            if keep_cache:
                open(_os.path.join(od, ".typecache"), "w").write('{"version":1,"commands_hash":"0","structs_hash":"0","config_hash":"0","events_hash":"0"}')
            r = common.run([cli, "tauri-typegen", "generate", "-p", _os.path.join(root, "src"), "-o", od, "-v", mode], cwd=root, hash_seed=hs0 + 7 + k)
            stats["runs"] += 1
            if r.timed_out or r.rc != 0:
                continue
            for (f, kind) in diff_kind(base, common.read_outputs(od)):
                viol.append(("C13 earlier-content-of-the-output-directory-changes-%s file=%s" % (kind, f), "same sources and settings, output directory holding longer files of the same names%s: %s differs from the run into a fresh directory (%s)" % (
                    " and a stale cache record" if keep_cache else "", f, kind), wit({"output_directory": "pre-filled", "stale_cache": keep_cache})))
        # (2b) the other two entry paths: the library call generate_from_config and the build-script path are runs on the same
        #      sources and configuration as well
        if drv:
            import json, os
            json.dump({"project_path": os.path.join(root, "src"), "output_path": os.path.join(root, "out_lib"), "validation_library": mode}, open(os.path.join(root, "lib.cfg.json"), "w"))
            r = common.run([drv, "gen", os.path.join(root, "lib.cfg.json")], cwd=root, hash_seed=hs0 + 1)
            stats["runs"] += 1
            if r.rc == 0 and not r.timed_out:
                for (f, kind) in diff_kind(base, common.read_outputs(os.path.join(root, "out_lib"))):
                    viol.append(("C13 entry-path=library changes-%s file=%s" % (kind, f), "generate_from_config with the same settings: %s differs from the CLI's (%s)" % (f, kind), wit({"entry": "library"})))
            elif not r.timed_out:
                viol.append(("C13 entry-path=library run-fails", "rc=%s %s" % (r.rc, (r.out + r.err)[-200:]), wit({"entry": "library"})))
            proj.write_tauri_conf(root, "src", "out_build", mode, {})
            r, _ = proj.build_generate(drv, root, hash_seed=hs0 + 2)
            stats["runs"] += 1
            if r.rc == 0 and not r.timed_out:
                for (f, kind) in diff_kind(base, common.read_outputs(os.path.join(root, "out_build"))):
                    viol.append(("C13 entry-path=build-script changes-%s file=%s" % (kind, f), "generate_at_build_time with the same settings: %s differs from the CLI's (%s)" % (f, kind), wit({"entry": "build"})))
                # ... and a second, identical build-script run into the same directory leaves the same set of files with the same content
                first = common.read_outputs(os.path.join(root, "out_build"))
                r2, _ = proj.build_generate(drv, root, hash_seed=hs0 + 3)
                stats["runs"] += 1
                if r2.rc == 0 and not r2.timed_out:
                    second = common.read_outputs(os.path.join(root, "out_build"))
                    for f in sorted(set(first) | set(second)):
                        if f == ".typecache":
                            continue
                        if f not in first or f not in second:
                            viol.append(("C13 entry-path=build-script second-run-file-set file=%s" % f, "%s exists only after the %s of two identical build-script runs" % (f, "first" if f in first else "second"), wit({"entry": "build"})))
                        elif f.endswith(".ts") and first[f] != second[f]:
                            viol.append(("C13 entry-path=build-script second-run-changes file=%s" % f, "%s differs between two identical build-script runs" % f, wit({"entry": "build"})))
            elif not r.timed_out:
                viol.append(("C13 entry-path=build-script run-fails", "rc=%s %s" % (r.rc, (r.out + r.err)[-200:]), wit({"entry": "build"})))
            try:
                os.unlink(os.path.join(root, "tauri.conf.json"))      # the later CLI runs of this case take their settings from flags only
            except OSError:
                pass
        # (3) semantics-preserving transformations
        for tno in range(0 if dup_names else ntrans):       # with duplicate names, which file holds a definition is part of the input
            tf = compound.TRANSFORMS[(idx + tno) % len(compound.TRANSFORMS)]
            f2, kind = tf(rnd, files)
            o, err = gen_out(cli, root, compound.render(f2), mode, hs0, "t%d" % tno, src_name="src_t%d" % tno)
            stats["runs"] += 1
            if o is None:
                viol.append(("C13 transform=%s run-fails" % tf.__name__, err, wit({"transform": tf.__name__})))
                continue
            for (f, dk) in diff_kind(base, o):
                if dk == "order" and kind == "order":
                    continue
                viol.append(("C13 transform=%s changes-%s file=%s" % (tf.__name__, dk, f),
                             "after %s (%s-preserving) %s differs in %s" % (tf.__name__, "everything" if kind == "noise" else "declaration-set", f, dk),
                             proj.witness_of(base_list, mode, extra={"transformed": [[p, t] for p, t in compound.render(f2)], "transform": tf.__name__})))
            if tno % 2 == 0:
                # the same transformed sources once more, this time IN PLACE: the project directory and the output directory of the
                # earlier state (its files, its cache record) are re-used, the run is not forced. Identical sources and settings —
                # identical files, whatever the directory remembers
                import shutil as _sh
                _sh.rmtree(_os.path.join(root, "src"), ignore_errors=True)
                o2, err2 = gen_out(cli, root, compound.render(f2), mode, hs0 + 11, "base")
                stats["runs"] += 1
                stats["in_place_reruns"] = stats.get("in_place_reruns", 0) + 1
                if o2 is not None:
                    for (f, dk) in diff_kind(o, o2):
                        viol.append(("C13 history-of-the-output-directory-changes-%s transform=%s file=%s" % (dk, tf.__name__, f),
                                     "the sources after %s generated into a fresh directory and (not forced) into the directory that holds the earlier state's output: %s differs (%s)" % (tf.__name__, f, dk),
                                     proj.witness_of(base_list, mode, extra={"transformed": [[p, t] for p, t in compound.render(f2)], "transform": tf.__name__, "in_place": True})))
        return {"viol": viol, "runs": stats["runs"], "bytes": len(stats["distinct_bytes"]), "orders": len(stats["distinct_orders"]), "graph_pairs": stats.get("graph_file_pairs_compared", 0), "in_place": stats.get("in_place_reruns", 0),
                "files": len(files), "items": sum(len(v) for v in files.values())}
    finally:
        common.rmtree(root)


def run(tier):
    v = Verdict("C13", "exploration", tier)
    cli = common.build_cli()
    drv = common.build_driver()
    n = 60 if tier == "quick" else 2000
    nseeds = 12 if tier == "quick" else 48
    ntrans = 4 if tier == "quick" else 8
    base = common.seed() * 13000019
    jobs = [(cli, i, base + i, "none" if i % 2 == 0 else "zod", nseeds, ntrans, drv) for i in range(n)]
    res = common.pmap(run_case, jobs, chunksize=1)
    tot_bytes = tot_orders = multi = 0
    for (job, r) in zip(jobs, res):
        if "blocked" in r:
            v.blocked += 1
            v.case(job[2], nontrivial=False)
            v.count("blocked:" + r["blocked"][:50])
            continue
        v.case((job[2], job[3]), nontrivial=r["files"] >= 2, sample={"seed": job[2], "mode": job[3], "files": r["files"], "items": r["items"],
                                                                    "process_runs": r["runs"], "distinct_outputs": r["bytes"], "distinct_declaration_orders": r["orders"]})
        v.count("process_runs", r["runs"])
        v.count("graph_files_compared_across_hash_seeds", r.get("graph_pairs", 0))
        v.count("in_place_reruns_over_an_earlier_state", r.get("in_place", 0))
        tot_bytes += r["bytes"]
        tot_orders += r["orders"]
        if r["orders"] > 1:
            multi += 1
        for (sig, what, wit) in r["viol"]:
            v.violation(sig, what, wit)
    v.extra["hash_seeds_per_project"] = nseeds
    v.extra["transformations_per_project"] = ntrans
    v.extra["distinct_byte_level_outputs_total"] = tot_bytes
    v.extra["distinct_declaration_orders_total"] = tot_orders
    v.extra["projects_showing_more_than_one_order"] = multi
    rule = ("a case is one multi-file project (2-6 files, 3-9 types, 3-9 commands, 0-4 events) in one mode, generated under N hash seeds "
            "(replayable shim + 2 OS-entropy processes) with permuted file creation order, with --verbose and --visualize-deps, through the library and build-script entry paths, and after M "
            "semantics-preserving transformations (noise, decoys, reorder, move, split, merge, rename files); non-trivial = >= 2 files; "
            "distinct by generator seed; evidence reports distinct outputs / declaration orders actually observed")
    return v.finish(rule, assumptions=["tmpfs readdir order follows creation order (reverse)", "declarations compared as token sequences split at column-0 export/import"])
