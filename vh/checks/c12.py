"""C12 — one correctly named, correctly subscribed listener per emitted event.
Generated emit placements / receivers / payload forms with ground truth; events.ts parsed and compared."""
import random

from .. import common, proj, rustgen as rg, shape as sh, tsparse
from ..common import Verdict

HDR = rg.PRELUDE + "use tauri::{AppHandle, Emitter, Manager, Window, WebviewWindow};\n\n"
DEFS = rg.struct_src("Foo", [("a", "i32")]) + rg.struct_src("Bar", [("foo", "Foo"), ("n", "Option<i32>")]) + rg.enum_src("Kind", [("Alpha",), ("Beta",)])
NAME_ALPHABET = "abcdefghijklmnopqrstuvwxyzABCXYZ0123456789"
SEPS = ["-", "_", ":", "/"]

# placements: template with {E} for the emit expression statement
PLACEMENTS = [
    ("statement", "    {E};\n"),
    ("statement-unwrap", "    {E}.unwrap();\n"),
    ("statement-ok", "    {E}.ok();\n"),
    ("let-initialiser", "    let _r = {E};\n"),
    ("let-initialiser-unwrap", "    let _r = {E}.unwrap();\n"),
    ("if-branch", "    if flag {{\n        {E}.unwrap();\n    }}\n"),
    ("else-branch", "    if flag {{\n        let _z = 1;\n    }} else {{\n        {E}.unwrap();\n    }}\n"),
    ("else-if-branch", "    if flag {{\n        let _z = 1;\n    }} else if !flag {{\n        {E}.unwrap();\n    }}\n"),
    ("match-arm-block", "    match n {{\n        0 => {{\n            {E}.unwrap();\n        }}\n        _ => {{}}\n    }}\n"),
    ("match-arm-expr", "    match n {{\n        0 => {E}.unwrap(),\n        _ => (),\n    }}\n"),
    ("loop-body", "    loop {{\n        {E}.unwrap();\n        break;\n    }}\n"),
    ("while-body", "    while flag {{\n        {E}.unwrap();\n    }}\n"),
    ("for-body", "    for _i in 0..n {{\n        {E}.unwrap();\n    }}\n"),
    ("nested-block", "    {{\n        {{\n            {E}.unwrap();\n        }}\n    }}\n"),
    ("try-operator", "    {E}?;\n"),
    ("await", "    {E}.await;\n"),
    ("await-try", "    {E}.await?;\n"),
    ("deep-mix", "    for _i in 0..n {{\n        if flag {{\n            match n {{\n                1 => {{\n                    {E}.ok();\n                }}\n                _ => {{}}\n            }}\n        }}\n    }}\n"),
    # blocks that are not control flow, and expression positions inside the body
    ("unsafe-block", "    unsafe {{\n        {E}.unwrap();\n    }}\n"),
    ("closure-block-spawned", "    std::thread::spawn(move || {{\n        {E}.unwrap();\n    }});\n"),
    ("async-block-spawned", "    tauri::async_runtime::spawn(async move {{\n        {E}.unwrap();\n    }});\n"),
    ("closure-in-method-argument", "    (0..n).for_each(|_i| {{\n        {E}.ok();\n    }});\n"),
    ("closure-expression-body", "    let _f = move || {E};\n"),
    ("if-let-scrutinee", "    if let Err(e) = {E} {{\n        eprintln!(\"{{}}\", e);\n    }}\n"),
    ("match-scrutinee", "    match {E} {{\n        Ok(_) => {{}}\n        Err(_) => {{}}\n    }}\n"),
    ("if-condition", "    if {E}.is_ok() {{\n        let _z = 1;\n    }}\n"),
    ("while-condition", "    while {E}.is_err() {{\n        break;\n    }}\n"),
    ("call-argument", "    report({E});\n"),
    ("parenthesised", "    ({E}).unwrap();\n"),
    ("return-expression", "    return {E};\n"),
    ("tail-expression", "    {E}\n"),
    ("binary-operand", "    let _ok = flag && {E}.is_ok();\n"),
    ("tuple-element", "    let _t = ({E}, 1);\n"),
    ("struct-field-initialiser", "    let _s = Outcome {{ result: {E} }};\n"),
    ("reference-of", "    let _r = &{E};\n"),
    ("match-guard", "    match n {{\n        0 if {E}.is_ok() => {{}}\n        _ => {{}}\n    }}\n"),
    ("for-iterator-expression", "    for _x in {E} {{\n    }}\n"),
    ("let-else-initialiser", "    let Ok(()) = {E} else {{\n        return;\n    }};\n"),
    ("let-else-diverging-block", "    let Some(_v) = maybe(n) else {{\n        {E}.ok();\n        return;\n    }};\n"),
]
RECEIVERS = [
    ("app-var", "app", "app: AppHandle"),
    ("window-var", "window", "window: Window"),
    ("webview-var", "webview", "webview: WebviewWindow"),
    ("self-app-field", "holder.app", "holder: Holder"),
    ("self-window-field", "holder.window", "holder: Holder"),
    ("nested-field", "holder.inner.webview", "holder: Holder"),
    ("method-call-result", "holder.handle()", "holder: Holder"),
    ("method-chain-result", "app.app_handle().clone()", "app: AppHandle"),
    # "the result of a method call": whatever the call is made on and whatever it is called
    ("clone-of-other-variable", "handle.clone()", "handle: AppHandle"),
    ("lock-unwrap-chain", "shared.lock().unwrap()", "shared: std::sync::Arc<std::sync::Mutex<AppHandle>>"),
    ("as-ref-unwrap-chain", "slot.as_ref().unwrap()", "slot: Option<AppHandle>"),
    ("borrow-of-cell", "cell.borrow()", "cell: std::cell::RefCell<AppHandle>"),
    ("lookup-with-arguments", "mgr.get_webview_window(\"main\").unwrap()", "mgr: AppHandle"),
    ("method-on-field-of-other-variable", "ctx.runtime.handle().clone()", "ctx: Holder"),
    # "a variable named app, window or webview": whatever its declared type is spelled like
    ("app-generic-runtime-ref", "app", "<R: tauri::Runtime>|app: &AppHandle<R>"),
    ("window-generic-runtime", "window", "<R: tauri::Runtime>|window: WebviewWindow<R>"),
    ("webview-generic-qualified", "webview", "<R: tauri::Runtime>|webview: tauri::Webview<R>"),
    ("app-in-arc", "app", "app: std::sync::Arc<AppHandle>"),
    ("app-impl-emitter", "app", "app: impl Emitter"),
    ("app-type-parameter", "app", "<T: Emitter>|app: &T"),
    ("app-ref-qualified", "app", "app: &tauri::AppHandle"),
    ("window-bound-by-let-from-builder", "window", "app0: AppHandle||    let window = tauri::WebviewWindowBuilder::new(&app0, \"aux\", Default::default()).build().unwrap();\n"),
    ("app-bound-by-annotated-let", "app", "owner: Holder||    let app: &AppHandle = owner.handle_ref();\n"),
    # functions that take nothing and reach the handle through a global (an empty parameter text: the function then has only the
    # parameters a payload form needs — none for literals, struct expressions and the like)
    ("method-call-result-on-a-global", "APP_HANDLE.get().unwrap()", ""),
    ("app-bound-by-let-from-a-global", "app", "||    let app = APP_HANDLE.get().expect(\"set at startup\").clone();\n"),
]
# payload forms: (label, setup statements, expression, extra fn params, expected type tree or None=unknown)
def payload_forms(rnd):
    t_vec = ("vec", rg.N("Foo"))
    t_opt = ("opt", rg.N("Bar"))
    t_map = ("hmap", rg.P("String"), ("vec", rg.N("Kind")))
    t_tup = ("tuple", [rg.P("i32"), rg.N("Foo")])
    forms = [
        ("literal-str", "", '"hello"', "", rg.P("String")),
        ("literal-int", "", "42", "", rg.P("i32")),
        ("literal-float", "", "1.5", "", rg.P("f64")),
        ("literal-bool", "", "true", "", rg.P("bool")),
        ("unit-literal", "", "()", "", rg.P("()")),
        ("struct-expr", "", "Foo { a: 1 }", "", rg.N("Foo")),
        ("struct-expr-ref", "", "&Foo { a: 1 }", "", rg.N("Foo")),
        ("typed-param", "", "p", "p: Foo", rg.N("Foo")),
        ("typed-param-ref-type", "", "p", "p: &Bar", rg.N("Bar")),
        # the typed parameter comes after parameters that are patterns (a destructured tuple, a wildcard, a struct pattern)
        ("typed-param-after-tuple-pattern-param", "", "p", "(lo, hi): (u32, u32), p: Foo", rg.N("Foo")),
        ("typed-param-after-wildcard-param", "", "&p", "_: u8, p: Bar", rg.N("Bar")),
        ("typed-param-after-struct-pattern-param", "", "p.clone()", "Foo { a: _first }: Foo, p: Kind", rg.N("Kind")),
        ("typed-param-amp", "", "&p", "p: Bar", rg.N("Bar")),
        ("typed-param-clone", "", "p.clone()", "p: Kind", rg.N("Kind")),
        ("typed-param-vec", "", "p", "p: Vec<Foo>", t_vec),
        ("typed-param-option", "", "&p", "p: Option<Bar>", t_opt),
        ("typed-param-map", "", "p.clone()", "p: HashMap<String, Vec<Kind>>", t_map),
        ("typed-param-tuple", "", "p", "p: (i32, Foo)", t_tup),
        ("typed-param-prim", "", "p", "p: u64", rg.P("u64")),
        ("typed-param-string", "", "&p", "p: String", rg.P("String")),
        ("typed-let", "    let v: Foo = make_foo();\n", "v", "", rg.N("Foo")),
        ("typed-let-vec", "    let v: Vec<Foo> = Vec::new();\n", "&v", "", t_vec),
        ("typed-let-option-clone", "    let v: Option<Bar> = None;\n", "v.clone()", "", t_opt),
        ("typed-let-prim", "    let v: f32 = 1.0;\n", "v", "", rg.P("f32")),
        ("let-struct-expr", "    let v = Foo { a: 2 };\n", "&v", "", rg.N("Foo")),
        # a binding shadowed by a later one of another type: the payload has the type of the binding in force at the call
        ("shadowed-let-struct-expr", "    let v = Foo { a: 2 };\n    let _earlier = &v;\n    let v = Bar { b: String::new() };\n", "&v", "", rg.N("Bar")),
        ("shadowed-typed-let", "    let v: Foo = make_foo();\n    drop(v);\n    let v: Vec<Bar> = Vec::new();\n", "v", "", ("vec", rg.N("Bar"))),
        ("let-shadows-typed-parameter", "    let p = Bar { b: String::new() };\n", "&p", "p: Foo", rg.N("Bar")),
        ("typed-let-shadows-typed-parameter", "    let p: Kind = pick();\n", "p", "p: Foo", rg.N("Kind")),
        # the clone-then-move idiom: a typed name re-bound under its own name through a method call. The tool keeps the type; `unknown`
        # would also be within the statement (an un-annotated let from a call) — anything else is not
        ("rebound-clone-of-typed-param", "    let p = p.clone();\n", "p", "p: Foo", rg.N("Foo")),
        ("rebound-to-owned-of-typed-param-then-ref", "    let p = p.to_owned();\n", "&p", "p: Bar", rg.N("Bar")),
        ("rebound-clone-of-typed-let", "    let v: Kind = pick();\n    let v = v.clone();\n", "v.clone()", "", rg.N("Kind")),
        ("rebound-clone-of-typed-vec-param", "    let p = p.clone();\n    let handle = 1;\n", "p", "p: Vec<Foo>", t_vec),
        # not syntactically evident => unknown
        ("call-result", "", "make_foo()", "", None),
        ("method-result", "", "p.to_summary()", "p: Foo", None),
        # calls through a path: what they return is not written at the call site either
        ("associated-fn-call-result", "", "Foo::load()", "", None),
        ("qualified-fn-call-result", "", "crate::state::current()", "", None),
        ("std-associated-fn-call-result", "", "Vec::from([1, 2])", "", None),
        ("turbofish-call-result", "", "Vec::<Foo>::new()", "", None),
        ("default-call-result", "", "Default::default()", "", None),
        ("tuple-expr", "", "(1, 2)", "", None),
        ("enum-path", "", "Kind::Alpha", "", None),
        ("macro-result", "", 'format!("x{}", 1)', "", None),
        ("untyped-let-from-call", "    let v = compute();\n", "v", "", None),
        # `let v = Foo::load(); emit(.., v)`: the tool's Type::method() heuristic answers Foo. Whether that counts as
        # "syntactically evident" is not settled by the statement, so the form is not generated (DESIGN 4.2).
        ("pattern-bound-variable", "    let (x, _y) = pair();\n", "x", "", None),
        ("field-access", "", "p.foo", "p: Bar", None),
        ("index-expr", "", "p[0]", "p: Vec<Foo>", None),
        ("closure-call", "", "(|| 1)()", "", None),
        ("static-item", "", "GLOBAL_VALUE", "", None),
    ]
    for k in range(6):
        t = rg.random_type(rnd, rnd.randint(1, 3), named=("Foo", "Bar", "Kind"), allow_result=False, allow_ref=False)
        r = rg.rust(t)
        forms.append(("typed-param-random", "", rnd.choice(["p", "&p", "p.clone()"]), "p: %s" % r, t))
        forms.append(("typed-let-random", "    let v: %s = todo!();\n" % r, rnd.choice(["v", "&v", "v.clone()"]), "", t))
    return forms


HOSTILE_NAMES = ["it's", 'say "hi"', "back\\slash", "trailing\\", "close*/comment", "a b", "new\nline", "tab\tsep", "a.b", "tmpl${x}`", "émoji✓", "データ", "x=y?z", "'", "*/"]


def rs_lit(s):
    return s.replace("\\", "\\\\").replace('"', '\\"').replace("\n", "\\n").replace("\t", "\\t")


def rand_event_name(rnd):
    if rnd.random() < 0.12:
        # characters Tauri rejects at run time but a string literal can hold: the listener must still subscribe to exactly this text
        return rnd.choice(HOSTILE_NAMES)
    n = rnd.randint(1, 4)
    parts = []
    for _ in range(n):
        parts.append("".join(rnd.choice(NAME_ALPHABET) for _ in range(rnd.randint(1, 6))))
    name = parts[0]
    for p in parts[1:]:
        name += rnd.choice(SEPS) + p
    if rnd.random() < 0.1:
        name = rnd.choice(SEPS) + name
    if rnd.random() < 0.1:
        name += rnd.choice(SEPS)
    return name


HOLDER = ("pub struct Inner { pub webview: WebviewWindow }\npub struct Holder { pub app: AppHandle, pub window: Window, pub inner: Inner }\n"
          "impl Holder { pub fn handle(&self) -> AppHandle { self.app.clone() } }\n"
          "fn make_foo() -> Foo { Foo { a: 0 } }\nfn compute() -> Foo { make_foo() }\nfn pair() -> (Foo, i32) { (make_foo(), 1) }\nstatic GLOBAL_VALUE: i32 = 1;\n\n")


def emit_fn(fname, placement, receiver, method, evname, form, is_async=False, result_ret=False):
    plabel, ptmpl = placement
    rlabel, rexpr, rparam = receiver
    flabel, setup, pexpr, fparam, _ = form
    if method == "emit_to":
        call = '%s.emit_to("main", "%s", %s)' % (rexpr, rs_lit(evname), pexpr)
    else:
        call = '%s.emit("%s", %s)' % (rexpr, rs_lit(evname), pexpr)
    generics = rsetup = ""
    if "||" in rparam:
        rparam, rsetup = rparam.split("||", 1)
    if "|" in rparam:
        generics, rparam = rparam.split("|", 1)
    setup = rsetup + setup
    if rparam:
        params = [rparam, "flag: bool", "n: usize"] + ([fparam] if fparam else [])
    else:
        params = [fparam] if fparam else []
        setup = "    let flag = cfg!(debug_assertions);\n    let n = 3usize;\n" + setup
    needs_try = "?" in ptmpl
    needs_await = ".await" in ptmpl
    ret = " -> Result<(), tauri::Error>" if needs_try or plabel in ("return-expression", "tail-expression") else ""
    body = setup + ptmpl.replace("{E}", call).replace("{{", "{").replace("}}", "}")
    if needs_try:
        body += "    Ok(())\n"
    return "pub %sfn %s%s(%s)%s {\n%s}\n\n" % ("async " if needs_await else "", fname, generics, ", ".join(params), ret, body)


def gen_project(rnd, idx, forced=None):
    """forced: (placement idx|None, receiver idx|None, form idx|None)"""
    forms = payload_forms(rnd)
    nev = rnd.randint(1, 5) if not forced else rnd.randint(1, 2)
    truth = {}   # event name -> expected type tree | None
    feats = {}   # event name -> (placement, receiver, form, method)
    fns = {}
    used_names = set()
    nfiles = rnd.randint(1, 3)
    k = 0
    family = rnd.choice([None, None, ["user-login", "user_login", "user-login2", "user:login", "userLogin"], ["a-b", "a_b", "a-b2", "a_b2", "a/b"]])
    if family:
        nev = max(nev, 3)
    for e in range(nev):
        # event names whose derived identifiers collide — also with the numeric suffix a de-duplication scheme would append
        name = family[e % len(family)] if family and e < len(family) else rand_event_name(rnd)
        while name in used_names:
            name = rand_event_name(rnd)
        used_names.add(name)
        form = forms[forced[2]] if forced and forced[2] is not None and e == 0 else rnd.choice(forms)
        placement = PLACEMENTS[forced[0]] if forced and forced[0] is not None and e == 0 else rnd.choice(PLACEMENTS)
        receiver = RECEIVERS[forced[1]] if forced and forced[1] is not None and e == 0 else rnd.choice(RECEIVERS)
        method = "emit_to" if rnd.random() < 0.3 else "emit"
        truth[name] = form[4]
        feats[name] = (placement[0], receiver[0], form[0], method)
        reps = 1 if rnd.random() < 0.6 else rnd.randint(2, 3)   # same event from several functions / files
        for r in range(reps):
            k += 1
            f = "f%d.rs" % rnd.randrange(nfiles)
            pl = placement if r == 0 else rnd.choice(PLACEMENTS)
            rc = receiver if r == 0 else rnd.choice(RECEIVERS)
            # attributes on the emitting function that compile it conditionally in production code (none of them makes it a test)
            fattr = ["", "", "#[cfg(not(test))]\n", "#[cfg(any(desktop, test))]\n", "#[cfg(feature = \"testing-tools\")]\n", "#[cfg_attr(test, allow(dead_code))]\n#[inline]\n",
                     "#[cfg(all(not(test), debug_assertions))]\n", "#[allow(clippy::test_attr_in_doctest)]\n"][(idx + k) % 8]
            fns.setdefault(f, []).append(fattr + emit_fn("emit_%d_%d" % (idx, k), pl, rc, method, name, form))
    if idx % 3 == 1:
        # emissions whose event name is not a string literal (a constant, a variable, a formatted string): no listener can be
        # generated for them — in particular not one named after the target label of emit_to, which IS a literal
        decoys = ("pub const PROGRESS_EVENT: &str = \"progress-by-constant\";\n"
                  "pub fn emit_by_constant_%d(app: AppHandle, x: Foo, label: &str, name: String) {\n"
                  "    app.emit(PROGRESS_EVENT, x.clone()).unwrap();\n"
                  "    app.emit_to(\"main\", PROGRESS_EVENT, x.clone()).unwrap();\n"
                  "    app.emit_to(\"settings-window\", &name, 1).unwrap();\n"
                  "    app.emit_to(label, name.as_str(), x.clone()).unwrap();\n"
                  "    app.emit(&format!(\"job-{}\", 7), 2).unwrap();\n"
                  "    app.emit_to(EventTarget::labeled(\"side-panel\"), PROGRESS_EVENT, x).unwrap();\n"
                  "}\n\n") % idx
        fns.setdefault("f0.rs", []).append(decoys)
    files = []
    for f, lst in fns.items():
        files.append((f, HDR + (DEFS + HOLDER if f == "f0.rs" else "use super::*;\n") + "".join(lst)))
    if "f0.rs" not in fns:
        files.append(("f0.rs", HDR + DEFS + HOLDER))
    if idx % 7 != 3:
        files.append(("cmds.rs", HDR + rg.command_src("anchor_%d" % idx, [("b", "Bar"), ("k", "Kind")], "Foo")))
    # every seventh project defines no command at all: its events still need their listeners
    # decoys: emit on non-documented receivers / non-literal names / in impl methods must not matter for ground truth; kept out.
    return files, truth, feats


def run_case(a):
    cli, idx, seed, mode, forced = a
    rnd = random.Random(seed)
    if forced == "no-events":
        files = [("cmds.rs", HDR + DEFS + rg.command_src("anchor_%d" % idx, [("b", "Bar"), ("k", "Kind")], "Foo"))]
        truth, feats = {}, {}
    else:
        files, truth, feats = gen_project(rnd, idx, forced)
    g = proj.generate(cli, files, mode=mode, tag="c12")
    try:
        if g.run.timed_out:
            return {"inconclusive": "watchdog"}
        if g.run.abnormal():
            return {"blocked": "crash"}
        if g.run.rc != 0:
            return {"blocked": "rc=%s" % g.run.rc}
        out = g.output
        viol = []
        has_events_ts = "events.ts" in out.texts
        idx_exports = out.index_exports()
        if not truth:
            if has_events_ts:
                viol.append(("C12 events.ts-written-without-events", "events.ts exists although no event is emitted"))
            if "./events" in idx_exports:
                viol.append(("C12 index-reexports-events-without-events", "index.ts re-exports ./events although no event is emitted"))
            return {"viol": viol, "n": 0, "feats": [], "witness": proj.witness_of(files, mode) if viol else None}
        if not has_events_ts:
            viol.append(("C12 events.ts-missing", "events emitted %s but no events.ts was written" % sorted(truth)))
            return {"viol": viol, "n": len(truth), "feats": [], "witness": proj.witness_of(files, mode)}
        if "./events" not in idx_exports:
            viol.append(("C12 index-does-not-reexport-events", "events.ts written but index.ts does not re-export it"))
        if out.mods["events.ts"].errors:
            pf = common.parse_fault(out, ("events.ts",))
            return {"viol": [("C12 events.ts-does-not-parse " + pf[0], pf[1])], "n": len(truth), "feats": [], "witness": proj.witness_of(files, mode)}
        payload_ident = {f[0]: f[2] for f in payload_forms(rnd) if f[2].isidentifier()}
        ls = out.listeners()
        by_event = {}
        for l in ls:
            by_event.setdefault(l["event"], []).append(l)
        fn_names = [l["name"] for l in ls]
        for nm in set(fn_names):
            if fn_names.count(nm) > 1:
                viol.append(("C12 duplicate-listener-identifier", "function %s is exported %d times" % (nm, fn_names.count(nm))))
        for ev, exp in truth.items():
            pl, rc, fm, meth = feats[ev]
            got = by_event.get(ev, [])
            if not got:
                viol.append(("C12 missing-listener placement=%s receiver=%s method=%s" % (pl, rc, meth), "no listener subscribes to %r (placement %s, receiver %s, payload %s)" % (ev, pl, rc, fm)))
                continue
            if len(got) > 1:
                viol.append(("C12 several-listeners-for-one-event", "%d listeners subscribe to %r" % (len(got), ev)))
            l = got[0]
            if l["listen_calls"] != 1:
                viol.append(("C12 listener-listen-count", "listener %s has %d listen calls" % (l["name"], l["listen_calls"])))
            want = rg.M(exp) if exp is not None else ("unknown",)
            known_c05 = False
            for where, ty in (("handler-payload", l["payload"]), ("listen-type-argument", l["listen_targs"][0] if l["listen_targs"] else None)):
                if ty is None:
                    viol.append(("C12 payload-annotation-missing %s" % where, "listener %s for %r has no %s" % (l["name"], ev, where)))
                    continue
                try:
                    s = sh.ts_shape(ty)
                except sh.ShapeError as e2:
                    viol.append(("C12 payload-unreadable", str(e2)))
                    continue
                if s != want and exp is not None:
                    # the emitted text equals the recorded C05 defect (nullable array element without parentheses)?
                    from . import defects
                    model = defects.ts_model_shape(defects.add_types_prefix_model(defects.ts_text_model(exp)))
                    if model is not None and s == model:
                        known_c05 = True
                        break
                if s != want and fm.startswith("rebound-") and s == ("unknown",):
                    continue
                if s != want:
                    ident = payload_ident.get(fm)
                    if exp is None and ident and s == ("ref", ident) and fm == "static-item":
                        # cause class: an identifier that no parameter or pattern of the function binds (a static / const item) is
                        # used as if it were a type name. Names the function binds itself were repaired by d6b2ed6: for them the
                        # same symptom is a violation of its own
                        viol.append(("C12 payload-type unresolved-identifier-used-as-type-name",
                                     "event %r payload form `%s`: expected unknown, %s is the variable's own name %s" % (ev, fm, where, sh.show(s))))
                        break
                    viol.append(("C12 payload-type form=%s %s" % (fm, "expected-unknown" if exp is None else "expected-" + rg.skeleton(exp)),
                                 "event %r payload form `%s`: expected %s, %s is %s" % (ev, fm, sh.show(want), where, sh.show(s))))
                    break
        for ev in by_event:
            if ev not in truth:
                viol.append(("C12 extra-listener", "listener subscribes to %r which is not an emitted event name" % (ev,)))
        r = {"viol": viol, "n": len(truth), "feats": sorted({"placement:" + f[0] for f in feats.values()} | {"receiver:" + f[1] for f in feats.values()} | {"payload:" + f[2] for f in feats.values()})}
        if viol:
            r["witness"] = proj.witness_of(files, mode, extra={"events": {k: (rg.rust(v) if v else None) for k, v in truth.items()}})
        return r
    finally:
        g.cleanup()


def run(tier):
    v = Verdict("C12", "exploration", tier)
    cli = common.build_cli()
    base = common.seed() * 12000017
    jobs = []
    k = 0
    nforms = len(payload_forms(random.Random(0)))
    # systematic: every placement, every receiver, every payload form at least once per mode
    for mode in ("none", "zod"):
        for i in range(len(PLACEMENTS)):
            jobs.append((cli, k, base + k, mode, (i, None, None))); k += 1
        for i in range(len(RECEIVERS)):
            jobs.append((cli, k, base + k, mode, (None, i, None))); k += 1
        for i in range(nforms):
            jobs.append((cli, k, base + k, mode, (None, None, i))); k += 1
        jobs.append((cli, k, base + k, mode, "no-events")); k += 1
    n = 300 if tier == "quick" else 30000
    for i in range(n):
        jobs.append((cli, k, base + k, "none" if i % 2 == 0 else "zod", None)); k += 1
    res = common.pmap(run_case, jobs, chunksize=8)
    feats = set()
    for (job, r) in zip(jobs, res):
        if "inconclusive" in r:
            v.inconclusive.append("watchdog")
            continue
        if "blocked" in r:
            v.blocked += 1
            v.case(job[2], nontrivial=False)
            v.count("blocked:" + r["blocked"][:60])
            continue
        v.case((job[2], job[3]), nontrivial=r["n"] >= 1, sample={"seed": job[2], "mode": job[3], "events": r["n"], "features": r["feats"][:6]})
        v.count("events_expected", r["n"])
        feats.update(r["feats"])
        for (sig, what) in r["viol"]:
            v.violation(sig, "%s mode: %s" % (job[3], what), r.get("witness"))
    # the payload's type is the type of the binding in scope at the emit (C05's binding-history battery, judged here as the statement's
    # "typed parameter or binding ... and `unknown` otherwise")
    from . import c05
    sjobs = [(cli, k_, mode) for k_ in range(len(c05.SCOPE_TYPES)) for mode in ("none", "zod")]
    for (job, r) in zip(sjobs, common.pmap(c05.run_scope_cases, sjobs)):
        if "inconclusive" in r or "blocked" in r:
            continue
        v.count("payload_binding_scenarios", r["n"])
        for j in range(r["n"]):
            v.case(("scope", job[1], j, job[2]), nontrivial=True)
        for (label, tr, allowed, got) in r["bad"]:
            v.violation("C12 payload-type binding-in-scope %s" % label, "%s mode, probe type %s: the payload's type is %s, the listener says %s" % (job[2], tr, " or ".join(allowed), got),
                        proj.witness_of(r["files"], job[2], extra={"scenario": label}))
    v.extra["features_covered"] = sorted(feats)
    rule = ("a case is one generated project with 1-5 distinct events (names over [A-Za-z0-9] with '-', '_', ':', '/' separators), each emitted from "
            "1-3 functions in 1-3 files, in one of 18 placements, on one of 8 documented receiver forms, via emit or emit_to, with one of 34 payload "
            "forms; non-trivial = at least one event; distinct by generator seed")
    return v.finish(rule, assumptions=["only placements and receivers the statement lists are generated",
                                       "tuple expressions, enum paths, calls, method results, untyped or pattern-bound variables are 'not evident' => unknown (DESIGN 4.2)"])
