"""C20 — dependency ordering routines are correct on every graph.
The driver feeds graphs to the real routines and judges with a bitmask closure/SCC oracle;
this module shards the enumeration over processes (each under the replayable hash-seed shim),
localises crashes (unbounded recursion) by bisection, and aggregates what was observed."""
import json

from .. import common
from ..common import Verdict


def _run_shard(a):
    drv, args, hs = a
    r = common.run([drv, "c20"] + [str(x) for x in args], hash_seed=hs, timeout=3000)
    return (args, hs, r.rc, r.out, r.err[-400:], r.timed_out)


def _bisect_crash(drv, n, lo, hi, rep, hs):
    """find a single graph id whose processing kills the driver, re-running deterministically"""
    def dies(a, b):
        r = common.run([drv, "c20", "exh", str(n), str(a), str(b), str(rep)], hash_seed=hs, timeout=600)
        return r.rc not in (0,) or r.timed_out
    if not dies(lo, hi):
        return None
    while hi - lo > 1:
        mid = (lo + hi) // 2
        if dies(lo, mid):
            hi = mid
        else:
            lo = mid
    return lo


def run(tier):
    v = Verdict("C20", "exploration", tier)
    drv = common.build_driver(release=True)
    seed = common.seed()
    shards = []
    if tier == "quick":
        plan = [(1, 0, 2, 8), (2, 0, 16, 8), (3, 0, 512, 8)]
        # a seeded slice of 20 000 four-node graphs
        import random
        rnd = random.Random(seed)
        start = rnd.randrange(0, 65536)
        four = [(4, (start + k * 1250) % 65536, 1250, 2) for k in range(16)]
        rand = [(seed * 1000 + k, 1500, 12, 3) for k in range(8)]
        exhaustive_scope = "all directed graphs with self-loops on <=3 labelled nodes x all non-empty subsets"
    else:
        plan = [(1, 0, 2, 8), (2, 0, 16, 8), (3, 0, 512, 8)]
        four = [(4, k * 1024, 1024, 16) for k in range(64)]
        # a seeded slice of the 2^25 five-node graphs
        import random
        rnd = random.Random(seed)
        five = [(5, rnd.randrange(0, 2 ** 25 - 4000), 4000, 4) for _ in range(32)]
        four = four + five
        rand = [(seed * 1000 + k, 40000, 12, 4) for k in range(32)]
        exhaustive_scope = "all directed graphs with self-loops on <=4 labelled nodes (65 536 on 4) x all 15 non-empty subsets"
    for (n, lo, hi, rep) in plan:
        shards.append((drv, ["exh", n, lo, hi, rep], seed * 7919 + n))
    for (n, lo, cnt, rep) in four:
        hi = min(lo + cnt, 2 ** (n * n))
        shards.append((drv, ["exh", n, lo, hi, rep], seed * 7919 + lo))
    for (s, cnt, maxn, rep) in rand:
        shards.append((drv, ["rand", s, cnt, maxn, rep], s))
    results = common.pmap(_run_shard, shards)
    tot = {}
    for (args, hs, rc, out, err, to) in results:
        if to:
            v.inconclusive.append("driver shard %s hit the wall-clock watchdog" % (args,))
            continue
        if rc != 0:
            # crash: unbounded recursion or panic inside the routines. Replay to confirm + localise.
            if args[0] == "exh":
                gid = _bisect_crash(drv, args[1], args[2], args[3], args[4], hs)
                if gid is None:
                    v.inconclusive.append("driver died once on shard %s (rc=%s) but not on replay" % (args, rc))
                else:
                    v.violation("C20 routine-does-not-return exh", "driver dies (rc=%s) on graph n=%d id=%d (adjacency bits), "
                                "reproducibly under hash seed %d: %s" % (rc, args[1], gid, hs, err[-200:]),
                                {"driver_args": ["c20", "exh", args[1], gid, gid + 1, args[4]], "hash_seed": hs})
            else:
                r2 = _run_shard((drv, args, hs))
                if r2[2] != 0:
                    v.violation("C20 routine-does-not-return rand", "driver dies (rc=%s) reproducibly on %s: %s" % (rc, args, err[-200:]),
                                {"driver_args": ["c20"] + args, "hash_seed": hs})
                else:
                    v.inconclusive.append("driver died once on shard %s but not on replay" % (args,))
            continue
        try:
            st = json.loads(out.strip().splitlines()[-1])
        except (ValueError, IndexError):
            v.inconclusive.append("unparsable driver output for %s" % (args,))
            continue
        for k in ("graphs", "cyclic", "acyclic", "sort_calls", "resolver_calls", "resolver_ok", "resolver_err", "history_steps",
                  "cases", "multi_order_cases", "sum_orders", "nviol"):
            tot[k] = tot.get(k, 0) + st.get(k, 0)
        tot["max_orders"] = max(tot.get("max_orders", 0), st["max_orders"])
        if len(v.samples) < 6:
            v.samples.append({"mode": args[0], "args": args[1:], "first_graph": st["sample"]})
        for viol in st["violations"]:
            kind = viol.split(" :: ")[-1].split(" ")[0]
            routine = viol.split(" ")[0]
            v.violation("C20 %s %s" % (routine, kind), viol, {"driver_args": ["c20"] + args, "hash_seed": hs, "detail": viol})
    v.evaluations = tot.get("sort_calls", 0) + tot.get("resolver_calls", 0)
    # distinct & non-trivial: (graph, subset) pairs plus graphs given to the resolver; graphs with >=1 edge dominate
    v.nontrivial = set(range(tot.get("cases", 0) + tot.get("graphs", 0)))
    for k, val in tot.items():
        v.counters[k] = val
    v.extra["exhaustive_scope"] = exhaustive_scope
    v.extra["mean_distinct_orders_per_case"] = round(tot.get("sum_orders", 0) / max(1, tot.get("cases", 1)), 3)
    rule = ("each evaluation is one call of the real routine; a case is a (graph, requested subset) pair for the type-ordering "
            "routine or a graph for the resolver; distinct_nontrivial counts distinct cases (every enumerated id is distinct; "
            "random graphs are counted as generated); each case repeated under fresh HashSet seeds, distinct result orders "
            "are counted per case (multi_order_cases / max_orders); history_steps = calls made on ONE instance that is grown entry by entry / "
            "node by node / edge by edge and judged after every step against the graph as it stands (all graphs up to 3 nodes, every 7th larger one, every random one)")
    return v.finish(rule, assumptions=["bitmask closure/SCC oracle in driver/src/c20.rs", "dependency = direct edge; a pair is exempt iff both lie on a common cycle (same SCC)"],
                    exhaustive=True)
