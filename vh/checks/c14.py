"""C14 — re-running with nothing changed rewrites nothing; --force always regenerates.
Filesystem monitor: snapshot (bytes, mtime_ns, inode) before/after the second run + strace log of mutating syscalls;
first and second run in fresh processes under different hash seeds; CLI and build-script paths."""
import json
import os
import random
import time

from .. import common, compound, fsmon, proj
from ..common import Verdict

RESERVED = ("types.ts", "commands.ts", "events.ts", "index.ts")


def fresh_reference(cli, root, mode, cfg=None):
    g = proj.generate(cli, None, mode=mode, root=root, out_name="out_ref", config=cfg, force=True)
    return common.read_outputs(g.out) if g.run.rc == 0 else None


def run_case(a):
    cli, drv, idx, seed, mode, path, nsecond = a
    rnd = random.Random(seed)
    files = compound.gen(rnd, idx, nfiles=rnd.randint(1, 6))
    if idx % 6 == 5:
        files = compound.events_only(files, idx)        # a project that only emits events is generated, cached and re-run like any other
    nmap = rnd.randint(0, 3)
    mappings = dict(rnd.sample([("PathBuf", "string"), ("Uuid", "string"), ("Decimal", "number"), ("DateTime<Utc>", "string"), ("Url", "string")], nmap))
    if idx % 4 == 1:
        # a mapping that names types the project itself defines (the mapping replaces them): settings like any other, cached like any other
        own = sorted({it.name for its in files.values() for it in its if it.kind == "type"})
        for nm in rnd.sample(own, min(len(own), rnd.randint(1, 2))):
            mappings[nm] = rnd.choice(["string", "number", "unknown"])
    root = common.scratch("c14")
    viol = []
    st = {"second_runs": 0, "up_to_date": 0, "mutating_calls_on_outputs": 0, "write_test_probes": 0, "forced_runs": 0}
    try:
        src = os.path.join(root, "src-tauri")
        common.write_tree(src, compound.render(files))
        out = os.path.join(root, "gen")
        wit = proj.witness_of(compound.render(files), mode, extra={"path": path, "type_mappings": mappings})
        cfg = {"type_mappings": mappings} if mappings else None

        def run_once(hs, force=False, traced=False, cfg_force=None):
            if path == "cli":
                argv = [cli, "tauri-typegen", "generate", "-p", src, "-o", out, "-v", mode]
                if cfg or cfg_force is not None:
                    c = {"project_path": src, "output_path": out, "validation_library": mode}
                    if cfg:
                        c.update(cfg)
                    if cfg_force is not None:
                        c["force"] = cfg_force
                    cp = os.path.join(root, "typegen.cfg.json")
                    json.dump(c, open(cp, "w"))
                    argv += ["-c", cp]
                if force:
                    argv.append("--force")
                if traced:
                    return fsmon.run_traced(argv, cwd=root, hash_seed=hs)
                return common.run(argv, cwd=root, hash_seed=hs), None
            extra = {}
            if mappings:
                extra["typeMappings"] = mappings
            if cfg_force is not None:
                extra["force"] = cfg_force
            if force:
                extra["force"] = True
            proj.write_tauri_conf(root, "src-tauri", "gen", mode, extra)
            return proj.build_generate(drv, root, hash_seed=hs, traced=traced)

        r1, _ = run_once(seed % 997)
        if r1.timed_out:
            return {"inconclusive": "watchdog"}
        if r1.rc != 0 or not os.path.exists(os.path.join(out, "types.ts")):
            return {"blocked": "first run failed rc=%s %s" % (r1.rc, (r1.err + r1.out)[-200:])}
        if path == "build":
            # the config file is rewritten by the harness before each run with identical bytes; make its mtime old
            pass
        # somebody's own files appear in the output directory between the runs — empty ones among them, and one that is named like the
        # tool's writability probe: a re-run with nothing changed leaves them as they are, too
        planted_probe = idx % 3 == 0
        if planted_probe:
            for fn_, text_ in ((".write_test", ""), (".gitkeep", ""), ("NOTES.md", "kept next to the bindings\n"), ("empty.ts.bak", "")):
                if not os.path.lexists(os.path.join(out, fn_)):
                    open(os.path.join(out, fn_), "w").write(text_)
        ign = lambda p_: p_ == ".write_test" and not planted_probe
        # ---- (a) unchanged re-runs in fresh processes under other hash seeds
        for k in range(nsecond):
            hs = None if k == nsecond - 1 else seed * 17 + k + 1
            before = fsmon.snapshot(out)
            time.sleep(0.002)
            r2, ev = run_once(hs, traced=True)
            st["second_runs"] += 1
            if r2.timed_out:
                return {"inconclusive": "watchdog"}
            after = fsmon.snapshot(out)
            d = fsmon.diff(before, after)
            if r2.rc != 0:
                viol.append(("C14 rerun-fails path=%s" % path, "second run exits %s: %s" % (r2.rc, (r2.err + r2.out)[-200:]), wit))
                continue
            if "up to date" in r2.out:
                st["up_to_date"] += 1
            changed = [p for p in d["created"] + d["deleted"] + d["modified"] + d["touched"] if not ign(p)]
            if changed:
                kinds = sorted(k2 for k2 in d if [p for p in d[k2] if not ign(p)])
                viol.append(("C14 rerun-touches-output path=%s kind=%s files=%s" % (path, "+".join(kinds), "+".join(sorted(set(os.path.basename(p) for p in changed)))[:80]),
                             "unchanged re-run (hash seeds %s -> %s) changed %s" % (seed % 997, hs, {k2: v for k2, v in d.items() if v}), wit))
            mut = [e for e in fsmon.mutating_on(ev, out) if e["ok"]]
            probes = [e for e in mut if e["path"] and e["path"].endswith("/.write_test")]
            st["write_test_probes"] += 1 if probes else 0
            mut = [e for e in mut if not (e["path"] and e["path"].endswith("/.write_test")) and not (e["call"] in ("mkdir", "mkdirat") )]
            # opening with O_CREAT/O_WRONLY on an existing output file is a rewrite
            st["mutating_calls_on_outputs"] += len(mut)
            if mut and not changed:
                viol.append(("C14 rerun-mutating-syscall path=%s call=%s" % (path, mut[0]["call"]), "unchanged re-run issued %s" % mut[0]["raw"], wit))
        # ---- (b) forced runs from every cache state
        ref = None
        for state in ("matching", "absent", "mismatching", "corrupt", "wrong-version", "directory-in-its-place"):
            cache = os.path.join(out, ".typecache")
            if state == "directory-in-its-place":
                # a record that can be neither read nor replaced: forced generation does not depend on the cache at all
                if os.path.isfile(cache):
                    os.unlink(cache)
                os.makedirs(os.path.join(cache, "sub"), exist_ok=True)
            elif state == "absent":
                if os.path.exists(cache):
                    os.unlink(cache)
            elif state == "corrupt":
                open(cache, "w").write("{ not json")
            elif state == "wrong-version":
                try:
                    c = json.load(open(cache))
                    c["version"] = 99
                    json.dump(c, open(cache, "w"))
                except (OSError, ValueError):
                    pass
            elif state == "mismatching":
                try:
                    c = json.load(open(cache))
                    c["combined_hash"] = "0"
                    json.dump(c, open(cache, "w"))
                except (OSError, ValueError):
                    pass
            for how in ("flag", "config"):
                if path == "build" and how == "flag":
                    continue
                # poison an output file so that "regenerated" is observable by content
                tp = os.path.join(out, "types.ts")
                open(tp, "a").write("\n// stale marker\n")
                before = fsmon.snapshot(out)
                rf, ev = run_once(seed * 3 + 5, force=(how == "flag"), cfg_force=(True if how == "config" else (False if how == "flag" and rnd.random() < 0.5 else None)), traced=False)
                st["forced_runs"] += 1
                if rf.timed_out:
                    return {"inconclusive": "watchdog"}
                now = common.read_outputs(out)
                if rf.rc != 0:
                    viol.append(("C14 forced-run-fails path=%s state=%s via=%s" % (path, state, how), "rc=%s %s" % (rf.rc, (rf.err + rf.out)[-200:]), wit))
                    continue
                if "stale marker" in now.get("types.ts", ""):
                    viol.append(("C14 force-did-not-regenerate path=%s cache=%s via=%s" % (path, state, how),
                                 "forced run (%s, cache %s) left the stale types.ts in place; stdout: %s" % (how, state, rf.out[-160:]), wit))
                    continue
                after = fsmon.snapshot(out)
                for f in ("types.ts", "commands.ts", "index.ts"):
                    if f in before and f in after and before[f][3] == after[f][3] and before[f][4] == after[f][4]:
                        viol.append(("C14 force-did-not-rewrite path=%s file=%s cache=%s via=%s" % (path, f, state, how), "%s keeps mtime and inode after a forced run" % f, wit))
                if ref is None:
                    ref = {k2: v2 for k2, v2 in now.items() if k2.endswith(".ts")}
                else:
                    cur = {k2: v2 for k2, v2 in now.items() if k2.endswith(".ts")}
                    if cur != ref:
                        viol.append(("C14 forced-output-differs-between-cache-states path=%s" % path, "forced generation from cache state %s differs from the first forced generation" % state, wit))
        # put a usable record back before the no-op phases
        import shutil as _sh
        if os.path.isdir(os.path.join(out, ".typecache")):
            _sh.rmtree(os.path.join(out, ".typecache"))
            run_once(seed * 3 + 6, force=True if path != "build" else False, cfg_force=True if path == "build" else None, traced=False)
        # ---- (c) a plain re-run after a forced one (and with another verbosity) must again be a no-op: force and
        #          verbosity are not inputs of the generated files
        if path == "cli":
            for label, extra_args in (("after-forced-run", []), ("with---verbose", ["--verbose"])):
                before = fsmon.snapshot(out)
                time.sleep(0.002)
                argv = [cli, "tauri-typegen", "generate", "-p", src, "-o", out, "-v", mode] + extra_args
                if cfg:
                    c = {"project_path": src, "output_path": out, "validation_library": mode}
                    c.update(cfg)
                    cp = os.path.join(root, "typegen.cfg.json")
                    json.dump(c, open(cp, "w"))
                    argv += ["-c", cp]
                r3 = common.run(argv, cwd=root, hash_seed=seed * 5 + 11)
                st["second_runs"] += 1
                d = fsmon.diff(before, fsmon.snapshot(out))
                changed = [p for p in d["created"] + d["deleted"] + d["modified"] + d["touched"] if not ign(p)]
                if r3.rc == 0 and changed:
                    viol.append(("C14 rerun-touches-output path=cli %s" % label, "plain re-run %s on unchanged inputs changed %s" % (label, {k2: v2 for k2, v2 in d.items() if v2}), wit))
        else:
            proj.write_tauri_conf(root, "src-tauri", "gen", mode, {"typeMappings": mappings} if mappings else {})
            before = fsmon.snapshot(out)
            time.sleep(0.002)
            r3, _ = proj.build_generate(drv, root, hash_seed=seed * 5 + 11)
            st["second_runs"] += 1
            d = fsmon.diff(before, fsmon.snapshot(out))
            changed = [p for p in d["created"] + d["deleted"] + d["modified"] + d["touched"] if not ign(p)]
            if r3.rc == 0 and changed:
                viol.append(("C14 rerun-touches-output path=build after-forced-run", "plain re-run after force:true was removed from the configuration changed %s" % {k2: v2 for k2, v2 in d.items() if v2}, wit))
        # ---- (d) optional outputs left over from an earlier state (dependency-graph.* after visualisation was switched off,
        #          events.ts after the last emit was removed) are not part of the current output: once the run that follows the
        #          change has regenerated, further unchanged runs must again rewrite nothing
        def plain_run(hs, viz=False):
            if path == "cli":
                argv = [cli, "tauri-typegen", "generate", "-p", src, "-o", out, "-v", mode] + (["--visualize-deps"] if viz else [])
                if cfg:
                    c = {"project_path": src, "output_path": out, "validation_library": mode}
                    c.update(cfg)
                    cp = os.path.join(root, "typegen.cfg.json")
                    json.dump(c, open(cp, "w"))
                    argv += ["-c", cp]
                return common.run(argv, cwd=root, hash_seed=hs)
            extra = {"typeMappings": mappings} if mappings else {}
            if viz:
                extra["visualizeDeps"] = True
            proj.write_tauri_conf(root, "src-tauri", "gen", mode, extra)
            return proj.build_generate(drv, root, hash_seed=hs)[0]

        for label in ("visualisation-switched-off", "last-emit-removed"):
            if label == "visualisation-switched-off":
                ra = plain_run(seed * 7 + 1, viz=True)
                if ra.rc != 0 or not os.path.exists(os.path.join(out, "dependency-graph.txt")):
                    if ra.rc == 0:
                        viol.append(("C14 visualisation-requested-but-graph-files-absent path=%s" % path, "a successful run with dependency visualisation on left no dependency-graph.txt", wit))
                    continue
                # with the visualisation still on and nothing changed, a further run is a no-op as well (its two files included)
                before = fsmon.snapshot(out)
                time.sleep(0.002)
                rv = plain_run(seed * 7 + 9, viz=True)
                st["second_runs"] += 1
                st["reruns_with_visualisation_on"] = st.get("reruns_with_visualisation_on", 0) + 1
                d = fsmon.diff(before, fsmon.snapshot(out))
                changed = [p2 for p2 in d["created"] + d["deleted"] + d["modified"] + d["touched"] if not ign(p2)]
                if rv.rc == 0 and changed:
                    viol.append(("C14 rerun-touches-output path=%s visualisation=on" % path,
                                 "unchanged re-run with dependency visualisation on changed %s" % {k2: v2 for k2, v2 in d.items() if v2}, wit))
            else:
                rendered = compound.render(files)
                if not any(".emit(" in t or ".emit_to(" in t for (_, t) in rendered) or not os.path.exists(os.path.join(out, "events.ts")):
                    continue
                common.write_tree(src, [(p2, t.replace(".emit(", ".emit_disabled(").replace(".emit_to(", ".emit_to_disabled(")) for (p2, t) in rendered])
            rb = plain_run(seed * 7 + 2)            # the run that sees the change: regenerates (or not) as it likes
            if rb.rc != 0:
                continue
            for k in range(2):
                before = fsmon.snapshot(out)
                time.sleep(0.002)
                rc_ = plain_run(seed * 7 + 3 + k)
                st["second_runs"] += 1
                st["reruns_with_leftover_optional_output"] = st.get("reruns_with_leftover_optional_output", 0) + 1
                d = fsmon.diff(before, fsmon.snapshot(out))
                changed = [p2 for p2 in d["created"] + d["deleted"] + d["modified"] + d["touched"] if not ign(p2)]
                if rc_.rc == 0 and changed:
                    viol.append(("C14 rerun-touches-output path=%s leftover=%s" % (path, label),
                                 "unchanged re-run #%d after %s changed %s (stdout tail %r)" % (k + 1, label, {k2: v2 for k2, v2 in d.items() if v2}, rc_.out.strip()[-60:]), wit))
                    break
        return {"viol": viol, "st": st, "files": len(files), "mappings": nmap}
    finally:
        common.rmtree(root)


def run(tier):
    v = Verdict("C14", "exploration", tier)
    cli = common.build_cli()
    drv = common.build_driver()
    n = 80 if tier == "quick" else 3000
    nsecond = 3 if tier == "quick" else 12
    base = common.seed() * 14000029
    jobs = []
    for i in range(n):
        for path in ("cli", "build"):
            jobs.append((cli, drv, i, base + i, "none" if i % 2 == 0 else "zod", path, nsecond))
    res = common.pmap(run_case, jobs, chunksize=1)
    for (job, r) in zip(jobs, res):
        if "inconclusive" in r:
            v.inconclusive.append("watchdog")
            continue
        if "blocked" in r:
            v.blocked += 1
            v.case((job[3], job[5]), nontrivial=False)
            v.count("blocked:" + r["blocked"][:60])
            continue
        v.case((job[3], job[4], job[5]), nontrivial=r["files"] >= 2, sample={"seed": job[3], "mode": job[4], "path": job[5], "source_files": r["files"], "type_mappings": r["mappings"], **r["st"]})
        for k, val in r["st"].items():
            v.count(k, val)
        for (sig, what, wit) in r["viol"]:
            v.violation(sig, what, wit)
    v.extra["strace_available"] = fsmon.STRACE is not None
    rule = ("a case is one project of 1-6 source files with 0-3 type mappings, one mode, one path (CLI / build script): first run, then N unchanged "
            "re-runs in fresh processes under other hash seeds (snapshot + strace), then forced runs (flag and config) from 5 cache states; "
            "non-trivial = >= 2 source files; distinct by (seed, mode, path)")
    return v.finish(rule, assumptions=["the build path's transient .write_test probe is a directory-level event, not a touched file (DESIGN 4.2)",
                                       "strace -f sees every write-class syscall of the child"])
