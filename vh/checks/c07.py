"""C07 — types.ts declares exactly the serde types reachable from the public surface.
Random + systematic type-dependency graphs with ground-truth reachability computed on the generator's model."""
import itertools
import random

from .. import common, proj, rustgen as rg
from ..common import Verdict

CTX = [
    ("direct", lambda x: x),
    ("Option", lambda x: ("opt", x)),
    ("Vec", lambda x: ("vec", x)),
    ("HashSet", lambda x: ("hset", x)),
    ("BTreeSet", lambda x: ("bset", x)),
    ("map-key", lambda x: ("hmap", x, rg.P("i32"))),
    ("map-value", lambda x: ("hmap", rg.P("String"), x)),
    ("bmap-value", lambda x: ("bmap", rg.P("u8"), x)),
    ("tuple-first", lambda x: ("tuple", [x, rg.P("i32")])),
    ("tuple-last", lambda x: ("tuple", [rg.P("i32"), rg.P("String"), x])),
    ("Vec<Option>", lambda x: ("vec", ("opt", x))),
    ("Option<Vec>", lambda x: ("opt", ("vec", x))),
    ("Map<Vec>", lambda x: ("hmap", rg.P("String"), ("vec", x))),
    ("Vec<tuple>", lambda x: ("vec", ("tuple", [rg.P("u8"), x]))),
    ("tuple<Map>", lambda x: ("tuple", [("hmap", rg.P("String"), x), rg.P("bool")])),
    ("Map<tuple>", lambda x: ("hmap", rg.P("String"), ("tuple", [rg.P("i32"), x]))),
    ("Option<Map<Vec>>", lambda x: ("opt", ("bmap", rg.P("String"), ("vec", x)))),
    ("ref", lambda x: ("ref", x)),
    # fixed-size arrays: a type constructor like the others, alone and nested in itself and in the others
    ("array", lambda x: ("array", x)),
    ("array<array>", lambda x: ("array", ("array", x))),
    ("array<Option<array>>", lambda x: ("array", ("opt", ("array", x)))),
    ("Vec<array>", lambda x: ("vec", ("array", x))),
    ("array<Map<array>>", lambda x: ("array", ("hmap", rg.P("String"), ("array", x)))),
    ("array<tuple>", lambda x: ("array", ("tuple", [rg.P("u8"), x]))),
    # a second custom name in the same field that has no declaration of its own (a foreign type): the project type next to it is
    # reachable all the same, whichever of the two names sorts first
    ("tuple-after-foreign", lambda x: ("tuple", [rg.N("AaaForeignPath"), x])),
    ("tuple-before-foreign", lambda x: ("tuple", [x, rg.N("ZzzForeignId")])),
    ("map-foreign-key", lambda x: ("hmap", rg.N("AaaForeignPath"), x)),
    ("Vec<tuple-after-two-foreign>", lambda x: ("vec", ("tuple", [rg.N("AaaForeignPath"), rg.N("Aab"), x, rg.N("ZzzForeignId")]))),
]
# type names that begin like the containers / primitives the tool recognises by string prefix, and other awkward shapes
NAME_POOL = ["Value", "JsonValue", "Api_Response", "K", "V", "E", "Größe", "データ", "Table", "TableSchema", "Schema", "JsonSchema", "QueryParams", "QueryParamsSchema", "Options", "OptionalFeature", "Option_", "Vec3", "Vector", "VecDeque2", "HashSetStats", "HashMapper", "BTreeMapView", "BTreeSetLike",
             "Results", "ResultSet", "Stringy", "StringList", "Str", "Boolean", "Bool", "I32Wrapper", "U8", "F64x", "Usize", "Channel2", "ChannelMsg",
             "Record", "Tuple", "Unit", "Boxed", "ArcItem", "T", "A", "Z9", "Item_V2", "HTTPResponse", "State2", "Window2", "AppHandle2", "Event", "Error",
             "Self_", "Some", "None_", "Ok", "Err", "Node", "User", "Config"]
ROOT_KINDS = ["param", "return", "return-result-ok", "channel", "channel-only", "event-typed-param", "event-struct-expr", "event-let", "event-shadowed-let"]
HDR = rg.PRELUDE + "use tauri::{AppHandle, Emitter, ipc::Channel};\n\n"


assert len(set(NAME_POOL)) == len(NAME_POOL), "NAME_POOL must not repeat a name: two types of one name in a project are another experiment"


def gen_case(rnd, idx, forced_ctx=None, forced_root=None, n=None):
    n = n or rnd.randint(2, 10)
    if rnd.random() < 0.5:
        names = ["T%d_%d" % (idx, i) for i in range(n)]
    else:
        pool = rnd.sample(NAME_POOL, n)
        names = [pool[i] if rnd.random() < 0.5 else "%s%dx%d" % (pool[i], idx, i) for i in range(n)]
    kinds = ["enum" if (i > 0 and rnd.random() < 0.2) else "struct" for i in range(n)]
    # every fifth graph turns some struct nodes into tuple structs (struct Id(pub u32); struct Pair(pub A, pub B);): serde structs too
    if idx % 5 == 3:
        kinds = ["tuple" if (k == "struct" and rnd.random() < 0.3) else k for k in kinds]
    edges = {}  # i -> list of (j, ctxlabel, type)
    for i in range(n):
        edges[i] = []
        if kinds[i] == "enum":
            continue
        for j in range(n):
            p = 0.28 if j > i else 0.08  # mostly forward, some back edges (cycles) and self loops
            if rnd.random() < p:
                lab, f = forced_ctx if (forced_ctx and rnd.random() < 0.7) else rnd.choice([c_ for c_ in CTX if c_[0] != "ref"])
                edges[i].append((j, lab, f(rg.N(names[j]))))
    if idx % 4 == 3:
        # a field that names the owning type AND another project type (a recursive container keyed or labelled by something else):
        # the other type is reached through it like through any field
        for i in range(n):
            if kinds[i] != "enum" and n > 1 and rnd.random() < 0.5:
                j = rnd.choice([x for x in range(n) if x != i])
                me, other = rg.N(names[i]), rg.N(names[j])
                lab, ty = rnd.choice([("map-key-beside-self", ("hmap", other, me)), ("tuple-beside-self", ("vec", ("tuple", [other, me]))),
                                      ("tuple-after-self", ("opt", ("tuple", [me, other]))), ("map-value-beside-self-key", ("bmap", me, ("vec", other)))])
                edges[i].append((j, lab, ty))
    nonserde = {i for i in range(n) if i > 0 and rnd.random() < 0.12}
    nfiles = rnd.randint(1, 5)
    file_of = {i: "f%d.rs" % rnd.randrange(nfiles) if nfiles > 1 else "lib.rs" for i in range(n)}
    if nfiles > 1 and rnd.random() < 0.5:
        file_of = {i: rnd.choice(["", "models/", "a/b/"]) + f for i, f in file_of.items()}
    if nfiles > 1 and idx % 3 == 1:
        # module files whose names mean something to cargo, git or the tool itself: below the project path they are ordinary modules
        special = ["pipeline/build.rs", "models/mod.rs", "bin/main.rs", "deploy/target.rs", "vcs/git.rs", "checks/tests.rs", "api/types.rs", "api/commands.rs",
                   "api/events.rs", "api/index.rs", "gen/generated.rs", "x/lib.rs", "cache/typecache.rs", "node/node_modules.rs"]
        remap = {}
        for f in sorted(set(file_of.values())):
            remap[f] = special[(idx // 3 + len(remap)) % len(special)]
        file_of = {i: remap[f] for i, f in file_of.items()}
    # roots
    roots = []
    nroots = rnd.randint(1, 3)
    for r in range(nroots):
        target = 0 if r == 0 else rnd.randrange(n)
        rk = forced_root if (forced_root and r == 0) else rnd.choice(ROOT_KINDS)
        lab, f = forced_ctx if (forced_ctx and r == 0) else rnd.choice(CTX)
        if rk in ("event-struct-expr", "event-shadowed-let"):
            lab, f = CTX[0]
            if kinds[target] in ("enum", "tuple"):
                rk = "event-typed-param"
        roots.append((target, rk, lab, f(rg.N(names[target]))))
    # error-arm-only type
    err_only = None
    if rnd.random() < 0.4:
        err_only = "E%d_err" % idx if rnd.random() < 0.5 else "ErrorKind%d" % idx
    # a third of the projects write their type references through paths (std::vec::Vec<crate::T>): same types, same reachability
    spelling = rg.SPELLINGS[idx % 3] if idx % 3 == rnd.randrange(3) else None
    q = lambda text: rg.qualify(text, spelling, names)
    inline_mods = idx % 4 == 2
    inline_defined = set()
    body = {}
    for i in range(n):
        fields = [("id", "i32")]
        for k, (j, lab, ty) in enumerate(edges[i]):
            # a field's visibility has no bearing on what serde puts on the wire: private and pub(crate) fields reach their types too
            vis = "" if (idx + i + k) % 4 else rnd.choice(["priv:", "crate:"])
            fields.append((vis + "f%d" % k, q(rg.rust(rg.strip_refs(ty)))))
        derives = None if i in nonserde else rnd.choice(["Serialize, Deserialize", "Serialize", "Deserialize", "serde::Serialize, serde::Deserialize"])
        style = rnd.choice(rg.DERIVE_STYLES)
        if kinds[i] == "enum":
            src = rg.enum_src(names[i], [("A",), ("B",)], derives=derives, derive_style=style)
        elif kinds[i] == "tuple":
            src = rg.struct_src(names[i], fields, derives=derives, derive_style=style)
            body_start = src.index("pub struct %s {" % names[i])
            elems = [ty for (_, ty) in fields[1:]] or ["u32"]
            src = src[:body_start] + "pub struct %s(%s);\n\n" % (names[i], ", ".join("pub " + e for e in elems))
        else:
            src = rg.struct_src(names[i], fields, derives=derives, derive_style=style)
            if not edges[i] and rnd.random() < 0.35:
                # a struct that puts nothing on the wire is a type like any other: unit struct, empty braces, every field skipped
                form = rnd.choice(["unit", "empty", "all-skipped"])
                head = src[:src.index("pub struct %s {" % names[i])]
                src = head + {"unit": "pub struct %s;\n\n", "empty": "pub struct %s {}\n\n",
                              "all-skipped": "pub struct %s {\n    #[serde(skip)]\n    pub cache: i32,\n    #[serde(skip)]\n    pub other: String,\n}\n\n"}[form] % names[i]
        if kinds[i] != "tuple" and (idx + i) % 7 == 3:
            # a definition with generic parameters that are not types (a defaulted const parameter, a lifetime): the tool spells
            # Frame<4> / Snapshot<'static> as Frame / Snapshot, and a bare `Frame` names the type as well — a type like any other
            gp = ["<const N: usize = 4>", "<'a>", "<'a, const WIDE: bool = false>"][(idx // 7 + i) % 3]
            kw = "pub enum %s {" if kinds[i] == "enum" else "pub struct %s {"
            for tail in (" {", ";"):
                head_ = (kw[:-2] % names[i]) + tail
                if head_ in src:
                    src = src.replace(head_, (kw[:-2] % names[i]) + gp + tail, 1)
                    break
        if inline_mods and i % 2 == 1:
            # the definition sits in an inline module of its file (pub mod models { .. }): still defined by that file
            gate = ["", "", "#[cfg(not(test))]\n", "#[cfg(any(test, feature = \"fixtures\"))]\n", "#[cfg(feature = \"models\")]\n", "#[cfg(all(not(test), debug_assertions))]\n",
                    "#[allow(dead_code)]\n", "#[cfg_attr(test, allow(unused))]\n"][(idx + i) % 8]
            src = gate + "pub mod m_%d_%d {\n    use super::*;\n%s}\n\n" % (idx, i, "".join("    " + ln + "\n" if ln else "\n" for ln in src.rstrip("\n").split("\n")))
            inline_defined.add(names[i])
        body.setdefault(file_of[i], []).append(src)
    cmds = []
    shadow_decoys = set()
    for r, (target, rk, lab, ty) in enumerate(roots):
        rs = q(rg.rust(ty))
        nm = "root_%d_%d" % (idx, r)
        if rk == "param":
            cmds.append(rg.command_src(nm, [("p", rs)], "i32"))
        elif rk == "return":
            cmds.append(rg.command_src(nm, [("x", "i32")], rs.replace("&", "&'static ")))
        elif rk == "return-result-ok":
            e = err_only or "String"
            cmds.append(rg.command_src(nm, [("x", "i32")], "Result<%s, %s>" % (rs.replace("&", "&'static "), e)))
        elif rk == "channel":
            cmds.append(rg.command_src(nm, [("x", "i32"), ("ch", "Channel<%s>" % rs.replace("&", "&'static "))], "i32"))
        elif rk == "channel-only":
            cmds.append(rg.command_src(nm, [("app", "AppHandle"), ("ch", "Channel<%s>" % rs.replace("&", "&'static "))], "i32"))
        elif rk == "event-typed-param":
            cmds.append("pub fn %s(app: AppHandle, v: %s) {\n    app.emit(\"ev-%s\", v).unwrap();\n}\n\n" % (nm, rs, nm))
        elif rk == "event-let":
            cmds.append("pub fn %s(app: AppHandle) {\n    let v: %s = todo!();\n    app.emit(\"ev-%s\", &v).unwrap();\n}\n\n" % (nm, rs.replace("&", "&'static "), nm))
        elif rk == "event-struct-expr":
            cmds.append("pub fn %s(app: AppHandle) {\n    app.emit(\"ev-%s\", %s { id: 1 }).unwrap();\n}\n\n" % (nm, nm, names[target]))
        elif rk == "event-shadowed-let":
            # the payload variable shadows an earlier binding of another (otherwise unused) serde type: only the later type is reachable
            shadow = "ShadowedFirst%d_%d" % (idx, r)
            shadow_decoys.add(shadow)
            cmds.append(rg.struct_src(shadow, [("id", "i32")]) +
                        "pub fn %s(app: AppHandle) {\n    let v = %s { id: 0 };\n    let _ = &v;\n    let v = %s { id: 1 };\n    app.emit(\"ev-%s\", &v).unwrap();\n}\n\n" % (
                            nm, shadow, names[target], nm))
    for r, (target, rk, lab, ty) in enumerate(roots):
        if rk.startswith("event-") and (idx + r) % 3 == 0:
            # the same event is emitted again elsewhere with another payload type: the first site's type is still part of the surface
            cmds.append("pub fn again_%d_%d(app: AppHandle) {\n    app.emit(\"ev-root_%d_%d\", 7u8).unwrap();\n}\n\n" % (idx, r, idx, r))
        elif rk.startswith("event-") and (idx + r) % 3 == 1:
            # ... and the other way round: an EARLIER site of the same event has a primitive payload, this root's site comes later
            cmds.insert(0, "pub fn earlier_%d_%d(app: AppHandle) {\n    app.emit(\"ev-root_%d_%d\", 0u8).unwrap();\n}\n\n" % (idx, r, idx, r))
    ev_roots = [r for r, (_t, rk, _l, _ty) in enumerate(roots) if rk.startswith("event-")]
    if len(ev_roots) >= 2 and idx % 4 == 2:
        # two roots emit ONE event name with their different payload types: both types are part of the surface
        a_, b_ = ev_roots[0], ev_roots[1]
        cmds = [c.replace("\"ev-root_%d_%d\"" % (idx, b_), "\"ev-root_%d_%d\"" % (idx, a_)) for c in cmds]
    if err_only:
        body.setdefault("lib.rs", []).append(rg.struct_src(err_only, [("msg", "String")]))
        if not any(rk == "return-result-ok" for (_, rk, _, _) in roots):
            cmds.append(rg.command_src("fallible_%d" % idx, [("x", "i32")], "Result<i32, %s>" % err_only))
    cmds.append(rg.command_src("anchor_%d" % idx, [("x", "i32")], "i32"))
    body.setdefault("lib.rs", []).extend(cmds)
    files = [(p, HDR + "".join(rnd.sample(v, len(v)) if p != "lib.rs" else v)) for p, v in body.items()]
    if idx % 5 == 4 and len(files) > 1:
        # a models file shared between crates: under the project path it is a symbolic link to a regular file outside it
        k = next((k for k, (p, _) in enumerate(files) if p != "lib.rs"), None)
        if k is not None:
            p, text = files[k]
            depth = p.count("/") + 1
            files[k] = ("../shared_models/m%d.rs" % idx, text)
            files.append((p, "\0symlink:" + "../" * depth + "shared_models/m%d.rs" % idx))
    rnd.shuffle(files)
    # ground truth
    reach = set()
    via = {}
    stack = []
    for (target, rk, lab, ty) in roots:
        via.setdefault(target, set()).add("root:%s/%s" % (rk, lab))
        stack.append(target)
    while stack:
        i = stack.pop()
        if i in reach:
            continue
        reach.add(i)
        if i in nonserde:
            continue  # a non-serde type is not emitted and its fields are never looked at
        for (j, lab, ty) in edges[i]:
            via.setdefault(j, set()).add("field/" + lab)
            stack.append(j)
    # a type is only reachable through serde types: recompute strictly
    reach2 = set()
    stack = [t for (t, _, _, _) in roots]
    while stack:
        i = stack.pop()
        if i in reach2 or i in nonserde:
            continue
        reach2.add(i)
        for (j, lab, ty) in edges[i]:
            stack.append(j)
    expected = {names[i] for i in reach2}
    parents = {}
    for i in range(n):
        if i in nonserde:
            continue
        for (j, lab, ty) in edges[i]:
            parents.setdefault(names[j], []).append((names[i], "field/" + lab))
    rootvia = {}
    for (target, rk, lab, ty) in roots:
        rootvia.setdefault(names[target], []).append("root:%s/%s" % (rk, lab))
    info = {"parents": parents, "rootvia": rootvia, "names": names, "kinds": kinds, "nonserde": {names[i] for i in nonserde}, "via": {names[i]: sorted(v) for i, v in via.items()},
            "err_only": err_only, "n": n, "edges": sum(len(v) for v in edges.values()), "files": len(files),
            "has_cycle": any(j <= i for i in edges for (j, _, _) in edges[i]),
            "all": set(names) | ({err_only} if err_only else set()) | shadow_decoys, "spelling": spelling, "inline": inline_defined,
            "tuple_structs": {names[i] for i in range(n) if kinds[i] == "tuple"}}
    return files, expected, info


def declared(out, mode, keep=()):
    """-> {name: count} of project type declarations in types.ts. The generated parameter objects (<Command>Params) are left out;
    `keep` names the project's own types, which count even when they are called ...Params themselves"""
    cnt = {}
    keep = set(keep)
    is_param_object = lambda n: n.endswith("Params") and n not in keep
    if mode == "none":
        for it in out.items("types.ts"):
            if it["kind"] in ("interface", "type") and not is_param_object(it["name"]):
                cnt[it["name"]] = cnt.get(it["name"], 0) + 1
    else:
        schemas = {}
        aliases = {}
        for it in out.items("types.ts"):
            if it["kind"] == "const" and it["name"].endswith("Schema") and not is_param_object(it["name"][:-6]):
                schemas[it["name"][:-6]] = schemas.get(it["name"][:-6], 0) + 1
            elif it["kind"] in ("type", "interface") and not is_param_object(it["name"]):
                aliases[it["name"]] = aliases.get(it["name"], 0) + 1
        for n in set(schemas) | set(aliases):
            cnt[n] = max(schemas.get(n, 0), aliases.get(n, 0))
    return cnt


def run_case(a):
    cli, idx, seed, mode, forced = a
    rnd = random.Random(seed)
    fc = CTX[forced[0]] if forced and forced[0] is not None else None
    fr = forced[1] if forced else None
    files, expected, info = gen_case(rnd, idx, fc, fr, n=(forced[2] if forced and len(forced) > 2 else None))
    g = proj.generate(cli, files, mode=mode, tag="c07")
    try:
        if g.run.timed_out:
            return {"inconclusive": "watchdog"}
        if g.run.abnormal():
            return {"blocked": "crash"}
        if g.run.rc != 0:
            return {"blocked": "rc=%s" % g.run.rc}
        out = g.output
        if "types.ts" not in out.mods or out.mods["types.ts"].errors:
            pf = common.parse_fault(out, ("types.ts",)) or ("types.ts missing", "types.ts was not written")
            return {"viol": [("C07 types.ts-does-not-parse " + pf[0], pf[1])], "n": info["n"], "edges": info["edges"], "files": info["files"], "cycle": info["has_cycle"],
                    "expected": len(expected), "decoys": len(info["all"]) - len(expected), "witness": proj.witness_of(files, mode)}
        got = declared(out, mode, keep=info["all"])
        viol = []
        for nm in sorted(expected):
            if nm not in got:
                # primary misses only: a root, or referenced by a type that IS declared (otherwise the parent's miss explains it)
                via = list(info["rootvia"].get(nm, [])) + [lab for (par, lab) in info["parents"].get(nm, []) if par in got and par in expected]
                if not via:
                    continue
                via = sorted(set(via))
                where = " defined-in-inline-module" if nm in info["inline"] else ""
                if nm in info["tuple_structs"]:
                    # defect model: a tuple struct is never declared, by whatever route it is reached (known finding)
                    viol.append(("C07 missing tuple-struct-not-declared", "reachable serde tuple struct %s (via %s)%s is not declared in types.ts" % (nm, via, where)))
                    continue
                viol.append(("C07 missing via=%s%s" % ("+".join(via[:3]), where), "reachable serde type %s (via %s)%s is not declared in types.ts" % (nm, via, where)))
        for nm, c in got.items():
            if nm not in expected:
                if nm in info["nonserde"]:
                    why = "non-serde"
                elif nm == info["err_only"]:
                    why = "error-arm-only"
                elif nm in info["all"]:
                    why = "unreachable"
                else:
                    why = "not-a-project-type"
                viol.append(("C07 extra reason=%s" % why, "%s is declared in types.ts but is %s" % (nm, why)))
            if c > 1:
                viol.append(("C07 declared-twice", "%s is declared %d times" % (nm, c)))
        r = {"viol": viol, "n": info["n"], "edges": info["edges"], "files": info["files"], "cycle": info["has_cycle"],
             "expected": len(expected), "decoys": len(info["all"]) - len(expected), "spelling": info["spelling"], "inline": len(info["inline"]), "tuples": len(info["tuple_structs"])}
        if viol:
            r["witness"] = proj.witness_of(files, mode, extra={"expected": sorted(expected)})
        return r
    finally:
        g.cleanup()


def run(tier):
    v = Verdict("C07", "exploration", tier)
    cli = common.build_cli()
    base = common.seed() * 9000011
    jobs = []
    # systematic: every edge context x every root kind on small graphs (both as root context and as field context)
    k = 0
    for ci in range(len(CTX)):
        for rk in ROOT_KINDS:
            for mode in ("none", "zod"):
                reps = 1 if tier == "quick" else 4
                for rep in range(reps):
                    jobs.append((cli, k, base + k, mode, (ci, rk, 3 + rep % 2)))
                    k += 1
    nrand = 300 if tier == "quick" else 30000
    for i in range(nrand):
        jobs.append((cli, k, base + k, "none" if i % 2 == 0 else "zod", None))
        k += 1
    res = common.pmap(run_case, jobs, chunksize=8)
    for (job, r) in zip(jobs, res):
        if "inconclusive" in r:
            v.inconclusive.append("watchdog")
            continue
        if "blocked" in r:
            v.blocked += 1
            v.case(job[2], nontrivial=False)
            v.count("blocked:" + r["blocked"])
            continue
        v.case((job[2], job[3]), nontrivial=r["edges"] >= 1,
               sample={"seed": job[2], "mode": job[3], "types": r["n"], "edges": r["edges"], "files": r["files"], "reachable": r["expected"], "decoys": r["decoys"], "cyclic": r["cycle"]})
        v.count("types_expected", r["expected"])
        v.count("decoy_types", r["decoys"])
        v.count("graphs_with_cycles", 1 if r["cycle"] else 0)
        v.count("graphs_with_path-qualified_type_references", 1 if r.get("spelling") else 0)
        v.count("types_defined_in_inline_modules", r.get("inline", 0))
        v.count("tuple_structs_in_graphs", r.get("tuples", 0))
        v.count("multi_file_graphs", 1 if r["files"] > 1 else 0)
        for (sig, what) in r["viol"]:
            v.violation(sig, "%s mode: %s" % (job[3], what), r.get("witness"))
    rule = ("a case is one generated type-dependency graph (2-10 types over 1-5 files, edges through 18 constructor contexts, roots of 7 kinds, "
            "unreachable / non-serde / error-arm-only decoys) in one mode; non-trivial = at least one edge; distinct by generator seed")
    return v.finish(rule, assumptions=["reachability computed on the generator's own graph; the error arm of Result is not a root",
                                       "…Params interfaces/schemas are not project types"])
