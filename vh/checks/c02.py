"""C02 — generated modules are closed: every name resolves, none is declared twice.
Monitor P+R: the four files of each run are parsed and handed to the module-graph resolver (vh/resolve.py)."""
import os
import random

from .. import common, proj, resolve, rustgen as rg, tsparse
from ..common import Verdict
from . import defects

X = "X"  # placeholder

POSITIONS = [
    ("top", lambda x: x),
    ("Option", lambda x: ("opt", x)),
    ("Vec", lambda x: ("vec", x)),
    ("HashSet", lambda x: ("hset", x)),
    ("map-key", lambda x: ("hmap", x, rg.P("i32"))),
    ("map-value", lambda x: ("bmap", rg.P("String"), x)),
    ("tuple-slot", lambda x: ("tuple", [rg.P("i32"), x])),
    ("Result-ok", lambda x: ("res", x, rg.P("String"))),
    ("Vec<Option>", lambda x: ("vec", ("opt", x))),
    ("Option<Vec>", lambda x: ("opt", ("vec", x))),
    ("Map<Vec>", lambda x: ("hmap", rg.P("String"), ("vec", x))),
    ("Vec<tuple>", lambda x: ("vec", ("tuple", [x, rg.P("i32")]))),
    ("Result<Vec>", lambda x: ("res", ("vec", x), rg.P("String"))),
    ("Vec<Vec>", lambda x: ("vec", ("vec", x))),
    ("Map<Option>", lambda x: ("bmap", rg.P("String"), ("opt", x))),
    ("Option<tuple>", lambda x: ("opt", ("tuple", [x, x]))),
]
POSITIONS3 = [
    ("Vec<Map<Vec>>", lambda x: ("vec", ("hmap", rg.P("String"), ("vec", x)))),
    ("Option<Vec<Option>>", lambda x: ("opt", ("vec", ("opt", x)))),
    ("Result<Map<tuple>>", lambda x: ("res", ("hmap", rg.P("String"), ("tuple", [x, rg.P("bool")])), rg.P("String"))),
    ("tuple<Vec,Option>", lambda x: ("tuple", [("vec", x), ("opt", x), rg.P("u8")])),
    ("Vec<Vec<Vec>>", lambda x: ("vec", ("vec", ("vec", x)))),
    ("Map<Map>", lambda x: ("hmap", rg.P("String"), ("bmap", rg.P("String"), x))),
]
SITES = ("param", "return", "field", "channel", "event")
def defs(style="single"):
    return (rg.struct_src("Foo", [("a", "i32")], derive_style=style) + rg.enum_src("Kind", [("Alpha",), ("Beta",)], derive_style=style) +
            rg.struct_src("Wrap", [("k", "Kind"), ("f", "Foo")]))


TUPLE_DEFS = ("#[derive(Serialize, Deserialize)]\npub struct Pair(pub i32, pub Foo);\n\n#[derive(Serialize, Deserialize)]\npub struct Id(pub u32);\n\n")
TUPLE_NAMES = ("Pair", "Id")
CONTAINER_LIKE_DEFS = ("#[derive(Serialize, Deserialize)]\npub struct MapMarker {\n    pub lat: f64,\n}\n\n#[derive(Serialize, Deserialize)]\npub enum RecordingState {\n    Idle,\n    Running,\n}\n\n"
                       "#[derive(Serialize, Deserialize)]\npub struct Records {\n    pub n: u32,\n}\n\n#[derive(Serialize, Deserialize)]\npub struct PromiseLike {\n    pub ok: bool,\n}\n\n")
GENERIC_DEFS = "#[derive(Serialize, Deserialize)]\npub struct Page<T> {\n    pub items: Vec<T>,\n    pub total: u32,\n}\n\n"
# names that dangle when an instantiation Page<Foo> is printed verbatim (and, in Zod mode, read as the comparison Page < Foo > Schema)
GENERIC_DANGLING = {"Page", "PageSchema", "T", "Foo", "Kind", "Schema", "FooSchema", "KindSchema", "Vec", "Option"}
DEFS = defs()
HDR = rg.PRELUDE + "use tauri::{AppHandle, Emitter, ipc::Channel};\n\n"


def site_project(site, t, with_events=False, style="single", extra_defs=""):
    r = rg.rust(t)
    src = [HDR, defs(style), extra_defs, rg.command_src("base_cmd", [("w", "Wrap")], "Wrap")]
    if site == "param":
        src.append(rg.command_src("probe", [("p", r)], "i32"))
    elif site == "return":
        src.append(rg.command_src("probe", [("id", "i32")], r))
    elif site == "return-no-params":
        src.append(rg.command_src("probe", [], r))                              # the wrapper template for commands that take nothing
    elif site == "return-injected-only":
        src.append(rg.command_src("probe", [("app", "AppHandle")], r, is_async=True))
    elif site == "field":
        src.append(rg.struct_src("Holder", [("v", r)]) + rg.command_src("probe", [("h", "Holder")], "Holder"))
    elif site == "private-field":
        src.append(rg.struct_src("Holder", [("id", "i32"), ("priv:v", r), ("crate:w", "Option<%s>" % r)]) + rg.command_src("probe", [("h", "Holder")], "Holder"))
    elif site == "channel":
        src.append(rg.command_src("probe", [("id", "i32"), ("on_event", "Channel<%s>" % r)], "i32"))
    elif site == "channel-only":
        src.append(rg.command_src("probe", [("app", "AppHandle"), ("on_event", "Channel<%s>" % r)], "i32"))
    elif site == "event":
        src.append("pub fn notify(app: AppHandle, x: %s) {\n    app.emit(\"probe-event\", x).unwrap();\n}\n\n" % r)
    if with_events and site != "event":
        src.append("pub fn other(app: AppHandle) {\n    app.emit(\"tick\", 1).unwrap();\n}\n\n")
    return [("lib.rs", "".join(src))]


def event_projects():
    P = []
    a = HDR + DEFS + rg.command_src("base_cmd", [("w", "Wrap")], "Wrap")
    two = "pub fn f1(app: AppHandle, x: Foo) {\n    app.emit(\"changed\", x).unwrap();\n}\n\npub fn f2(app: AppHandle, y: Foo) {\n    app.emit(\"changed\", y).unwrap();\n    app.emit(\"changed\", Foo { a: 1 }).unwrap();\n}\n\n"
    P.append(("same-event-two-functions", [("lib.rs", a + two)]))
    P.append(("same-event-two-files", [("lib.rs", a + "pub fn f1(app: AppHandle, x: Foo) {\n    app.emit(\"changed\", x).unwrap();\n}\n"),
                                        ("sub/other.rs", HDR + "pub fn f2(app: AppHandle) {\n    app.emit(\"changed\", 1).unwrap();\n}\n")]))
    P.append(("colliding-event-identifiers", [("lib.rs", a + "pub fn f1(app: AppHandle) {\n    app.emit(\"user-login\", 1).unwrap();\n    app.emit(\"user_login\", 2).unwrap();\n    app.emit(\"user:login\", 3).unwrap();\n    app.emit(\"user/login\", 4).unwrap();\n}\n")]))
    only = rg.struct_src("OnlyFirstSite", [("seq", "u32")]) + rg.struct_src("OnlySecondSite", [("note", "String")])
    P.append(("one-event-two-sites-distinct-payload-types", [("lib.rs", a + only + "pub fn f1(app: AppHandle, x: OnlyFirstSite) {\n    app.emit(\"changed\", x).unwrap();\n}\n\n"
                                                                           "pub fn f2(app: AppHandle, y: OnlySecondSite) {\n    app.emit(\"changed\", y).unwrap();\n}\n\n"
                                                                           "pub fn f3(app: AppHandle) {\n    app.emit(\"changed\", 3).unwrap();\n}\n")]))
    # payloads whose type the source does not spell out: whatever the listener says, it says it with names that exist
    P.append(("payload-variables-of-untold-type", [("lib.rs", a + "pub fn f1(app: AppHandle) {\n    let job = compute();\n    app.emit(\"job-done\", job).unwrap();\n    let (left, _right) = halves();\n"
                                                               "    app.emit(\"left-half\", &left).unwrap();\n    for item in items() {\n        app.emit(\"item-seen\", item).unwrap();\n    }\n"
                                                               "    if let Some(found) = lookup() {\n        app.emit(\"found\", found.clone()).unwrap();\n    }\n"
                                                               "    let notify = |progress| app.emit(\"progress\", progress).unwrap();\n    notify(1);\n}\n")]))
    # structs without a single serialised field, used where a TYPE is needed (return, payload, channel message), not a schema
    empties = ("#[derive(Serialize, Deserialize)]\npub struct Ack;\n\n#[derive(Serialize, Deserialize)]\npub struct Heartbeat {\n    #[serde(skip)]\n    pub at: u64,\n}\n\n"
               "#[derive(Serialize, Deserialize)]\npub struct Nothing {}\n\n")
    P.append(("field-less-structs-as-types", [("lib.rs", a + empties + rg.command_src("acknowledge", [("id", "i32")], "Ack") + rg.command_src("subscribe", [("on_beat", "Channel<Heartbeat>")], "Vec<Nothing>") +
                                                "pub fn beat(app: AppHandle, h: Heartbeat) {\n    app.emit(\"beat\", h).unwrap();\n}\n\npub fn done(app: AppHandle) {\n    app.emit(\"done\", Ack).unwrap();\n}\n")]))
    # a type defined many directories below the project path, used from the top (and an event payload type down there as well)
    for depth in (5, 6, 9, 14):
        deep = "/".join("m%d" % k for k in range(depth)) + "/model.rs"
        P.append(("type-defined-%d-directories-down" % depth, [
            ("lib.rs", a + rg.command_src("stock", [("item", "DeepItem")], "Vec<DeepLevel>") + "pub fn moved(app: AppHandle, m: DeepMoved) {\n    app.emit(\"stock-moved\", m).unwrap();\n}\n"),
            (deep, rg.PRELUDE + rg.struct_src("DeepItem", [("level", "DeepLevel")]) + rg.enum_src("DeepLevel", [("Low",), ("High",)]) + rg.struct_src("DeepMoved", [("item", "DeepItem")]))]))
    # commands that derive one TypeScript name (the same function name in two modules; snake_case / camelCase twins) where some take
    # nothing from the frontend: whatever numbers the parameter objects get, commands.ts and types.ts agree on them
    P.append(("same-command-name-in-two-files-first-without-parameters", [("lib.rs", a), ("admin/users.rs", HDR + rg.command_src("list", [], "Vec<Foo>")),
                                                                            ("public/users.rs", HDR + rg.command_src("list", [("page", "u32"), ("kind", "Option<Kind>")], "Vec<Foo>"))]))
    P.append(("same-command-name-in-three-files-middle-without-parameters", [("lib.rs", a), ("a/mod.rs", HDR + rg.command_src("sync", [("w", "Wrap")], "i32")), ("b/mod.rs", HDR + rg.command_src("sync", [("app", "AppHandle")], "Foo")),
                                                                               ("c/mod.rs", HDR + rg.command_src("sync", [("on_step", "Channel<Foo>")], "i32"))]))
    P.append(("case-twin-command-names-first-without-parameters", [("lib.rs", a + rg.command_src("get_user", [], "Foo") + rg.command_src("getUser", [("id", "i32")], "Foo") + rg.command_src("get__user", [("ch", "Channel<Kind>")], "i32"))]))
    P.append(("no-events", [("lib.rs", a)]))
    # no command takes anything from the frontend: commands.ts still needs its `types` import for what the commands return
    for k, rets in enumerate((["Vec<Foo>"], ["Option<Foo>", "Result<Vec<Kind>, String>"], ["HashMap<String, Wrap>", "(Foo, Kind)"], ["Result<Option<Vec<Foo>>, String>"], ["Foo"], ["Vec<Foo>", "i32"])):
        body = HDR + DEFS + "".join(rg.command_src("fetch_%d_%d" % (k, j), [("app", "AppHandle")] if j % 2 else [], r) for j, r in enumerate(rets))
        P.append(("commands-without-parameters-%d" % k, [("lib.rs", body)]))
    # names the generator makes up (parameter objects <Command>Params, the bindings commands.ts imports) against names the project chose
    P.append(("struct-named-like-its-commands-parameter-object", [("lib.rs", a + rg.struct_src("GetUserParams", [("id", "i32")]) +
                                                                    rg.command_src("get_user", [("params", "GetUserParams")], "Foo"))]))
    P.append(("struct-named-like-another-commands-parameter-object", [("lib.rs", a + rg.struct_src("ListAllParams", [("page", "u32")]) +
                                                                        rg.command_src("list_all", [("limit", "u32")], "Vec<Foo>") +
                                                                        rg.command_src("search", [("query", "ListAllParams")], "Vec<Foo>"))]))
    P.append(("struct-named-like-a-numbered-parameter-object", [("lib.rs", a + rg.struct_src("GetUserParams", [("id", "i32")]) + rg.struct_src("GetUser2Params", [("id", "i32")]) +
                                                                  rg.command_src("get_user", [("params", "GetUserParams"), ("more", "GetUser2Params")], "Foo"))]))
    # ... the same struct name, reachable only through an event payload (directly / as a field of the payload / through a channel message)
    emitp = "pub fn announce(app: AppHandle, p: %s) {\n    app.emit(\"job-announced\", p).unwrap();\n}\n\n"
    P.append(("event-only-struct-named-like-a-commands-parameter-object", [("lib.rs", a + rg.struct_src("StartJobParams", [("id", "i32")]) + emitp % "StartJobParams" +
                                                                             rg.command_src("start_job", [("name", "String"), ("retries", "u8")], "Foo"))]))
    P.append(("event-only-nested-struct-named-like-a-commands-parameter-object", [("lib.rs", a + rg.struct_src("StartJobParams", [("id", "i32")]) +
                                                                                    rg.struct_src("JobAnnouncement", [("params", "Option<StartJobParams>")]) + emitp % "JobAnnouncement" +
                                                                                    rg.command_src("start_job", [("on_log", "Channel<String>")], "Foo"))]))
    P.append(("channel-only-struct-named-like-a-commands-parameter-object", [("lib.rs", a + rg.struct_src("StartJobParams", [("id", "i32")]) +
                                                                               rg.command_src("watch", [("on_item", "Channel<StartJobParams>")], "i32") +
                                                                               rg.command_src("start_job", [("name", "String")], "Foo"))]))
    P.append(("returned-struct-named-like-a-commands-parameter-object", [("lib.rs", a + rg.struct_src("StartJobParams", [("id", "i32")]) +
                                                                           rg.command_src("last_params", [], "Vec<StartJobParams>") +
                                                                           rg.command_src("start_job", [("name", "String")], "Foo"))]))
    # Channel has a default message type: the path-qualified name alone is Tauri's channel too (a bare `Channel` is taken for a
    # project type by design, so it falls under the statement's premise)
    for k, ty in enumerate(("tauri::ipc::Channel", "tauri::ipc::Channel<>")):
        P.append(("channel-without-message-type-%d" % k, [("lib.rs", a + rg.command_src("download", [("url", "String"), ("on_chunk", ty)], "i32"))]))
        P.append(("channel-without-message-type-%d-next-to-a-typed-one" % k, [("lib.rs", a + rg.command_src("download", [("on_chunk", ty), ("on_progress", "Channel<Foo>")], "i32"))]))
    for nm in ("types", "invoke", "listen", "z", "channel", "command_hooks", "zod_error"):
        P.append(("command-named-%s" % nm, [("lib.rs", a + rg.command_src(nm, [("id", "i32")], "Foo") + rg.command_src(nm + "_", [("w", "Wrap")], "i32"))]))
    P.append(("event-in-command-body", [("lib.rs", a + rg.command_src("go", [("app", "AppHandle"), ("k", "Kind")], "Foo", body="app.emit(\"started\", k).unwrap(); todo!()"))]))
    return P


def analyse(g, mode, defined=("Foo", "Kind", "Wrap"), generic_probe=False):
    """-> list of (problem class, file, detail, names)"""
    probs = []
    out = g.output
    if out.errors():
        return None  # C01's business: blocked here
    for (f, item, kind, name, why) in resolve.unresolved(out):
        cls = "unresolved-%s" % kind
        known = classify(out, cls, f, item, name)
        bare = name.split(".")[-1]
        if not known and (bare in TUPLE_NAMES or (bare.endswith("Schema") and bare[:-6] in TUPLE_NAMES)):
            known = "tuple-struct-reference-unresolved"      # defect model: a tuple struct is never declared, so every reference to it dangles
        if not known and generic_probe and bare in GENERIC_DANGLING:
            known = "generic-struct-instantiation-printed-verbatim"   # defect model: `Page<Foo>` is copied into the output as text
        probs.append((cls, f, "%s: in %r the %s reference %r: %s" % (f, item, kind, name, why), known))
    for f, m in out.mods.items():
        info = resolve.ModInfo(f, m)
        for (space, n, cnt) in info.duplicates():
            probs.append(("declared-twice", f, "%s declares %s %r %d times" % (f, space, n, cnt), None))
    # index.ts re-exports exactly the files written by this run
    written = sorted(x[:-3] for x in os.listdir(g.out) if x.endswith(".ts") and x != "index.ts")
    exported = sorted(s[2:] if s.startswith("./") else s for s in out.index_exports())
    if written != exported:
        probs.append(("index-reexports", "index.ts", "index.ts re-exports %s but the run wrote %s" % (exported, written), None))
    if mode == "zod" and "types.ts" in out.mods:
        info = resolve.ModInfo("types.ts", out.mods["types.ts"])
        for n in defined:
            if n + "Schema" in info.exported_values() or n in info.exported_types():
                if n + "Schema" not in info.exported_values():
                    probs.append(("zod-schema-missing", "types.ts", "type %s has no exported %sSchema" % (n, n), None))
                if n not in info.exported_types():
                    probs.append(("zod-alias-missing", "types.ts", "schema %sSchema has no exported inferred type alias %s" % (n, n), None))
    return probs


def run_probe(a):
    cli, label, files, mode, meta = a
    g = proj.generate(cli, files, mode=mode, config=meta.get("config"), tag="c02")
    try:
        if g.run.timed_out:
            return {"inconclusive": "watchdog"}
        if g.run.rc != 0 or not g.files():
            return {"blocked": "rc=%s" % g.run.rc}
        probs = analyse(g, mode, generic_probe=meta.get("kind") == "generic-struct")
        if probs is None:
            pf = common.parse_fault(g.output)
            return {"probs": [("module-does-not-parse " + pf[0], pf[0].split(" ")[0], pf[1], None)], "refs": 0, "files": len(g.output.mods)}
        refs = sum(len(resolve.item_refs(it)) for m in g.output.mods.values() for it in m.items if it["kind"] not in ("import", "export_all"))
        return {"probs": probs, "refs": refs, "files": len(g.output.mods)}
    finally:
        g.cleanup()


def _occurrences(ty, name, under, acc):
    """record for each unqualified occurrence of `name` in a type AST whether an ancestor is Record<>/Map<> or a tuple"""
    if not isinstance(ty, tuple) or not ty:
        return
    k = ty[0]
    if k == "ref":
        if ty[1] == name:
            acc.append(under)
        inner = under or ty[1] in ("Record", "Map")
        for a in ty[2]:
            _occurrences(a, name, inner, acc)
    elif k == "tuple":
        for x in ty[1]:
            _occurrences(x, name, True, acc)
    elif k in ("array", "paren"):
        _occurrences(ty[1], name, under, acc)
    elif k in ("union", "inter"):
        for x in ty[1]:
            _occurrences(x, name, under, acc)
    elif k == "func":
        for prm in ty[1]:
            _occurrences(prm[2], name, under, acc)
        _occurrences(ty[2], name, under, acc)


def classify(out, cls, f, item_name, name):
    """known-defect model: the string-pattern namespace prefixing of return and payload types (commands.ts, events.ts)
    leaves names inside Record<..> and [..] unqualified — and only there."""
    if cls != "unresolved-type" or f not in ("commands.ts", "events.ts") or "." in name:
        return None
    acc = []
    for it in out.items(f, "function"):
        if it["name"] != item_name:
            continue
        for prm in it["params"]:
            _occurrences(prm[2], name, False, acc)
        _occurrences(it["ret"], name, False, acc)
        from ..tsmod import walk
        for n in walk(it["body"]):
            if n and n[0] == "call":
                for t in n[3]:
                    _occurrences(t, name, False, acc)
    if acc and all(acc):
        return "namespace-prefix-not-applied-inside-Record-or-tuple"
    return None


def run(tier):
    v = Verdict("C02", "exploration", tier)
    cli = common.build_cli()
    rnd = random.Random(common.seed())
    jobs = []
    positions = POSITIONS + (POSITIONS3 if tier == "thorough" else POSITIONS3[:2])
    for kind in ("Foo", "Kind"):
        for (plabel, pf) in positions:
            t = pf(rg.N(kind))
            for site in SITES:
                for mode in ("none", "zod"):
                    for we in ((False, True) if tier == "thorough" else (False,)):
                        style = rg.DERIVE_STYLES[len(jobs) % len(rg.DERIVE_STYLES)]   # equivalent layouts of the derive attributes
                        jobs.append((cli, "%s/%s/%s" % (site, plabel, kind), site_project(site, t, we, style), mode,
                                     {"site": site, "position": plabel, "kind": kind, "type": t}))
    # project types whose names merely BEGIN like a TypeScript container or global (Map.., Record.., Promise..)
    for kind in ("MapMarker", "RecordingState", "Records", "PromiseLike"):
        for (plabel, pf) in positions[:9]:
            t = pf(rg.N(kind))
            for site in SITES:
                for mode in ("none", "zod"):
                    jobs.append((cli, "%s/%s/%s" % (site, plabel, kind), site_project(site, t, extra_defs=CONTAINER_LIKE_DEFS), mode,
                                 {"site": site, "position": plabel, "kind": "container-like-name", "type": t}))
    # a project type that ONLY the probed site mentions (nothing else pulls it into types.ts)
    solo = rg.struct_src("SoloInner", [("n", "i32")]) + rg.struct_src("SoloMsg", [("inner", "SoloInner"), ("items", "Vec<SoloInner>")])
    for (plabel, pf) in positions[:9]:
        t = pf(rg.N("SoloMsg"))
        for site in SITES + ("channel-only", "private-field"):
            for mode in ("none", "zod"):
                jobs.append((cli, "%s/%s/SoloMsg" % (site, plabel), site_project(site, t, extra_defs=solo), mode,
                             {"site": site, "position": plabel, "kind": "only-reachable-through-this-site", "type": t}))
    # ... and that is defined below an inline module, or in the second inline module of its file
    ind = lambda text: "".join("    " + ln + "\n" if ln else "\n" for ln in text.rstrip("\n").split("\n"))
    layouts = {"after-an-inline-module": "pub mod helpers {\n    pub fn noop() {}\n    pub struct NotSerde;\n}\n\n" + solo,
               "in-the-second-inline-module": "pub mod first {\n    use super::*;\n%s}\n\npub mod second {\n    use super::*;\n%s}\npub use second::*;\n\n" % (
                   ind(rg.struct_src("SoloInner", [("n", "i32")])), ind(rg.struct_src("SoloMsg", [("inner", "SoloInner"), ("items", "Vec<SoloInner>")]))),
               "after-a-cfg-gated-inline-module": "#[cfg(not(test))]\npub mod live {\n    pub fn noop() {}\n}\n\n#[cfg(feature = \"x\")]\npub mod extra {\n    pub struct Unused;\n}\n\n" + solo}
    for lname, ldefs in layouts.items():
        for (plabel, pf) in positions[:4]:
            t = pf(rg.N("SoloMsg"))
            for site in SITES:
                for mode in ("none", "zod"):
                    jobs.append((cli, "%s/%s/SoloMsg/%s" % (site, plabel, lname), site_project(site, t, extra_defs=ldefs), mode,
                                 {"site": site, "position": plabel, "kind": "defined-" + lname, "type": t}))
    # ... and that is mentioned only behind a reference nested inside another type (borrowed view structs)
    for text in ("Vec<&'static SoloMsg>", "Option<&'static SoloMsg>", "HashMap<&'static str, &'static SoloMsg>", "(&'static SoloMsg, u32)", "Vec<&SoloMsg>",
                 "&'static Vec<&'static SoloMsg>", "Result<Vec<&'static SoloMsg>, String>", "Option<&'static mut SoloMsg>", "&'static &'static SoloMsg"):
        for site in SITES + ("channel-only",):
            for mode in ("none", "zod"):
                jobs.append((cli, "%s/nested-reference/%s" % (site, text), site_project(site, ("raw", text), extra_defs=solo), mode,
                             {"site": site, "position": "nested-reference", "kind": "only-reachable-through-this-site", "type": None}))
    # serde tuple structs (struct Id(pub u32); struct Pair(pub i32, pub Foo);) are project-defined serde structs as well
    for kind in TUPLE_NAMES:
        for (plabel, pf) in positions[:8]:
            t = pf(rg.N(kind))
            for site in SITES:
                for mode in ("none", "zod"):
                    jobs.append((cli, "%s/%s/%s" % (site, plabel, kind), site_project(site, t, extra_defs=TUPLE_DEFS), mode,
                                 {"site": site, "position": plabel, "kind": "tuple-struct", "type": t}))
    # instantiations of a project-defined generic serde struct (struct Page<T> { items: Vec<T>, .. } used as Page<Foo>)
    for text in ("Page<Foo>", "Vec<Page<Kind>>", "Option<Page<Foo>>", "Page<Vec<Foo>>"):
        for site in SITES:
            for mode in ("none", "zod"):
                jobs.append((cli, "generic/%s/%s" % (site, text), site_project(site, ("raw", text), extra_defs=GENERIC_DEFS), mode,
                             {"site": site, "position": "generic-instantiation", "kind": "generic-struct", "type": None}))
    # precondition variant: the named type is not defined in the project but covered by a type mapping
    for target in ("number", "Date", "bigint"):      # a primitive, a built-in object type, a lower-case built-in: none is exported by types.ts
        for (plabel, pf) in (positions if target == "number" else positions[:10]):
            t = pf(rg.N("Timestamp"))
            for site in SITES + ("return-no-params", "return-injected-only"):
                for mode in ("none", "zod"):
                    jobs.append((cli, "mapped->%s/%s/%s" % (target, site, plabel), site_project(site, t), mode,
                                 {"site": site, "position": plabel, "kind": "mapped->" + target, "type": t, "config": {"type_mappings": {"Timestamp": target}}}))
    # types that are not in the documented table but name no type of their own either (fixed-size arrays, slices): whatever the
    # tool prints for them must still resolve — the precondition (every NAMED type is defined or mapped) holds
    for text in ("[u8; 32]", "[f32; 3]", "[[f32; 4]; 4]", "Vec<[u8; 16]>", "Option<[i32; 2]>", "&'static [u8]", "HashMap<String, [u8; 4]>", "([u8; 2], String)",
                 "[Foo; 2]", "Vec<[Kind; 3]>", "[Option<Foo>; 2]", "[u8; N]", "[u8; 2 * 16]"):
        for site in SITES:
            for mode in ("none", "zod"):
                ttext = text if site != "param" else text.replace("&'static ", "&")
                jobs.append((cli, "array-or-slice/%s/%s" % (site, text), site_project(site, ("raw", ttext)), mode,
                             {"site": site, "position": "array-or-slice", "kind": "array", "type": None}))
    for (label, files) in event_projects():
        for mode in ("none", "zod"):
            jobs.append((cli, label, files, mode, {"site": "events", "position": label, "kind": "-", "type": None}))
    # compound: random types over Foo/Kind at random sites
    ncomp = 150 if tier == "quick" else 12000
    for i in range(ncomp):
        src = [HDR, DEFS, rg.command_src("base_cmd", [("w", "Wrap")], "Wrap")]
        for j in range(rnd.randint(2, 5)):
            t = rg.random_type(rnd, rnd.randint(1, 3), named=("Foo", "Kind"), allow_ref=False)
            site = rnd.choice(SITES)
            r = rg.rust(t)
            if site == "param":
                src.append(rg.command_src("c%d" % j, [("p", r)], "i32"))
            elif site == "return":
                src.append(rg.command_src("c%d" % j, [("id", "i32")], r))
            elif site == "field":
                src.append(rg.struct_src("H%d" % j, [("v", r)]) + rg.command_src("c%d" % j, [("h", "H%d" % j)], "H%d" % j))
            elif site == "channel":
                src.append(rg.command_src("c%d" % j, [("on_ev", "Channel<%s>" % r)], "i32"))
            else:
                src.append("pub fn n%d(app: AppHandle, x: %s) {\n    app.emit(\"ev-%d\", x).unwrap();\n}\n\n" % (j, r, j))
        jobs.append((cli, "compound-%d" % i, [("lib.rs", "".join(src))], rnd.choice(("none", "zod")), {"site": "compound", "position": "random", "kind": "-", "type": None}))
    res = common.pmap(run_probe, jobs, chunksize=4)
    for (job, r) in zip(jobs, res):
        _, label, files, mode, meta = job
        if "inconclusive" in r:
            v.inconclusive.append("watchdog")
            continue
        v.case((label, mode, files[0][1] if meta["site"] == "compound" else ""), nontrivial=meta["position"] != "top",
               sample={"probe": label, "mode": mode})
        if "blocked" in r:
            v.blocked += 1
            v.count("blocked:" + r["blocked"][:30])
            continue
        v.count("references_resolved", r["refs"])
        v.count("modules_analysed", r["files"])
        seen = set()
        for (cls, f, detail, known) in r["probs"]:
            if known and not isinstance(known, str):
                known = None
            if known and known.startswith(("namespace-", "tuple-struct-", "generic-struct-")):
                sig = "C02 %s" % known
            elif meta["site"] == "compound":
                sig = "C02 compound %s %s" % (cls, f)
            else:
                sig = "C02 %s %s %s %s" % (meta["site"], meta["position"], cls, f)
            if sig in seen:
                continue
            seen.add(sig)
            v.violation(sig, "%s mode, probe %s: %s" % (mode, label, detail), proj.witness_of(files, mode, config=meta.get("config")))
    rule = ("a case is one generated project (custom struct/enum at a structural position of a translation site, or an event layout, "
            "or a random compound) in one mode; non-trivial = the custom type is below at least one constructor; every reference in "
            "every module is resolved (counter references_resolved)")
    return v.finish(rule, assumptions=["precondition of the statement: every named Rust type is defined or mapped (the generator guarantees it)",
                                       "cross-file name conflicts through index.ts re-exports are not judged (DESIGN 4.2)"])
