"""Compound multi-file projects as a list of movable top-level items (used by C13, C14, C08, C16, C17).
A project is {file: [Item]}; an Item is (kind, name, source). Transformations that must not change the generated
declarations operate on this representation."""
import random

from . import rustgen as rg

HDR = rg.PRELUDE + "use tauri::{AppHandle, Emitter, ipc::Channel};\n\n"
FIELD_TYPES = ["i32", "String", "bool", "f64", "Option<String>", "Vec<u8>", "Option<i32>", "Vec<String>", "HashMap<String, i32>", "(i32, String)", "u64"]


class Item:
    __slots__ = ("kind", "name", "src")

    def __init__(self, kind, name, src):
        self.kind, self.name, self.src = kind, name, src


def gen(rnd, idx=0, nfiles=None, ntypes=None, ncmds=None, nevents=None, validators=False):
    nfiles = nfiles or rnd.randint(2, 6)
    ntypes = ntypes or rnd.randint(3, 9)
    ncmds = ncmds or rnd.randint(3, 9)
    nevents = rnd.randint(0, 4) if nevents is None else nevents
    tnames = ["Ty%d%s" % (i, rnd.choice(["", "Info", "Data", "Req"])) for i in range(ntypes)]
    kinds = ["enum" if rnd.random() < 0.2 else "struct" for _ in tnames]
    items = []
    for i, (nm, kd) in enumerate(zip(tnames, kinds)):
        if kd == "enum":
            ra = rnd.choice([None, None, "snake_case", "SCREAMING_SNAKE_CASE", "camelCase"])
            items.append(Item("type", nm, rg.enum_src(nm, [("First",), ("SecondOne",), ("Third3",)][: rnd.randint(2, 3)], rename_all=ra)))
        else:
            fields = []
            for k in range(rnd.randint(1, 5)):
                if i + 1 < ntypes and rnd.random() < 0.35:
                    dep = rnd.choice(tnames[i + 1:])
                    ty = rnd.choice(["%s", "Option<%s>", "Vec<%s>", "HashMap<String, %s>"]) % dep
                else:
                    ty = rnd.choice(FIELD_TYPES)
                attrs = []
                if rnd.random() < 0.15:
                    attrs.append('#[serde(rename = "f%dRenamed")]' % k)
                if validators and ty == "String" and rnd.random() < 0.4:
                    attrs.append('#[validate(length(min = 1, max = %d))]' % rnd.randint(2, 99))
                fields.append(("field_%d" % k, ty, attrs))
            ra = rnd.choice([None, None, "camelCase", "kebab-case"])
            items.append(Item("type", nm, rg.struct_src(nm, fields, rename_all=ra, derives="Serialize, Deserialize" + (", Validate" if validators else ""))))
    for c in range(ncmds):
        nm = "cmd_%d_%d" % (idx, c)
        params = []
        for k in range(rnd.randint(0, 3)):
            params.append(("arg_%d" % k, rnd.choice(FIELD_TYPES + tnames + ["Option<%s>" % rnd.choice(tnames)])))
        if rnd.random() < 0.2:
            params.append(("on_event", "Channel<%s>" % rnd.choice(tnames + ["String"])))
        if rnd.random() < 0.3:
            params.insert(0, ("app", "AppHandle"))
        ret = rnd.choice([None, "String", "Result<%s, String>" % rnd.choice(tnames), rnd.choice(tnames), "Vec<%s>" % rnd.choice(tnames), "Result<(), String>", "Option<i32>"])
        items.append(Item("command", nm, rg.command_src(nm, params, ret, is_async=rnd.random() < 0.5)))
    if rnd.random() < 0.3:
        # type names that differ only in case (Id / ID, Url / URL): distinct types, whatever order anything sorts them in
        for a_, b_ in (("Id%d" % idx, "ID%d" % idx), ("Url%dKind" % idx, "URL%dKind" % idx), ("IoError%d" % idx, "IOError%d" % idx), ("Uuid%dV" % idx, "UUID%dV" % idx)):
            items.append(Item("type", a_, rg.struct_src(a_, [("lower", "u32")])))
            items.append(Item("type", b_, rg.struct_src(b_, [("upper", "String")])))
            items.append(Item("command", "uses_%s" % a_.lower(), rg.command_src("uses_%s_%d" % (a_.lower(), len(items)), [("a", a_)], b_)))
    twins = []
    if rnd.random() < 0.3 or idx % 3 == 0:
        # one command implemented once per platform: two annotated functions of one name (and one signature). In every third project
        # the two start out next to each other in one file (how they are usually written); the transformations move them apart
        nm = "platform_cmd_%d" % idx
        for gate in ('#[cfg(target_os = "windows")]', '#[cfg(not(target_os = "windows"))]'):
            (twins if idx % 3 == 0 else items).append(Item("command", nm, rg.command_src(nm, [("path", "String"), ("flags", "u32")], "Result<String, String>", pre_attrs=[gate])))
    if rnd.random() < 0.35:
        # serde newtypes / tuple structs among the used types (the tool has no declaration form for them — a recorded finding of
        # C07 / C02 — but whatever it does about them, it does the same on every run and to nothing else)
        for k in range(rnd.randint(1, 2)):
            nt = "Newtype%d_%d" % (idx, k)
            items.append(Item("type", nt, "#[derive(Serialize, Deserialize)]\npub struct %s(pub %s);\n\n" % (nt, rnd.choice(["u32", "String", "u32, pub String"]))))
            items.append(Item("command", "takes_%s" % nt.lower(), rg.command_src("takes_%s" % nt.lower(), [("id", nt), ("other", rnd.choice(tnames))], "Option<%s>" % rnd.choice(tnames))))
    if rnd.random() < 0.3:
        # a serde struct that nothing reaches, named like the parameter object of one of the commands: not part of the surface, so
        # no option that only adds output of its own (verbosity, the dependency graph) may bring it into play
        items.append(Item("command", "fetch_report_%d" % idx, rg.command_src("fetch_report_%d" % idx, [("since", "u64"), ("kind", rnd.choice(tnames))], "Vec<String>")))
        items.append(Item("type", "FetchReport%dParams" % idx, rg.struct_src("FetchReport%dParams" % idx, [("unrelated", "bool")])))
    for e in range(nevents):
        nm = "notify_%d_%d" % (idx, e)
        pt = rnd.choice(tnames)
        evn = "event-%d-%s" % (e, rnd.choice(["a", "b:c", "d/e"]))
        if rnd.random() < 0.3:
            # payload bound without a type annotation, under a name that other functions use for typed parameters:
            # whatever the tool makes of it must not depend on which other functions are nearby
            items.append(Item("event", nm, "pub fn %s(app: AppHandle) {\n    let payload = load_state_%d();\n    app.emit(\"%s\", payload).unwrap();\n}\n\n" % (nm, e, evn)))
        else:
            items.append(Item("event", nm, "pub fn %s(app: AppHandle, payload: %s) {\n    app.emit(\"%s\", payload).unwrap();\n}\n\n" % (nm, pt, evn)))
        if rnd.random() < 0.3:
            # the same event emitted twice in one function body, the second time with a payload type nothing else uses:
            # one listener, but both payload types belong to the surface (and must not depend on verbosity or file order)
            only = "OnlyEvt%d_%d" % (idx, e)
            items.append(Item("type", only, rg.struct_src(only, [("seq", "u32"), ("note", "Option<String>")])))
            items.append(Item("event", nm + "_twice", "pub fn %s_twice(app: AppHandle, first: %s, second: %s) {\n    app.emit(\"%s\", first).unwrap();\n    app.emit(\"%s\", second).unwrap();\n}\n\n"
                              % (nm, pt, only, evn + "-twice", evn + "-twice")))
    inline_only = []
    if rnd.random() < 0.4:
        # a file whose only top-level items are inline modules holding serde types that commands elsewhere use
        for k in range(rnd.randint(1, 2)):
            nm = "Inl%d_%d" % (idx, k)
            body = rg.struct_src(nm, [("flag", "bool"), ("label", "String")])
            inline_only.append(Item("type", nm, "pub mod holder_%d_%d {\n    use super::*;\n%s}\n\n" % (idx, k, "".join("    " + ln + "\n" if ln else "\n" for ln in body.rstrip("\n").split("\n")))))
            items.append(Item("command", "uses_inl_%d_%d" % (idx, k), rg.command_src("uses_inl_%d_%d" % (idx, k), [("x", nm)], "Vec<%s>" % nm)))
    files = {"f%d.rs" % i: [] for i in range(nfiles)}
    paths = list(files)
    if nfiles > 2 and rnd.random() < 0.5:
        paths = [("sub/" if i % 2 else "") + p for i, p in enumerate(paths)]
        files = {p: [] for p in paths}
    for it in items:
        files[rnd.choice(paths)].append(it)
    if twins:
        files[paths[idx % len(paths)]].extend(twins)
    if inline_only:
        files["models_inline.rs"] = inline_only
    return files


def events_only(files, idx=0):
    """the same project without a single command: what is left to generate are the listeners and the payload types"""
    out = {p: [it for it in its if it.kind != "command"] for p, its in files.items()}
    if not any(it.kind == "event" for its in out.values() for it in its):
        first = sorted(out)[0]
        out[first] = out[first] + [Item("event", "only_event_%d" % idx, "pub fn only_event_%d(app: AppHandle, n: u32) {\n    app.emit(\"only-event-%d\", n).unwrap();\n}\n\n" % (idx, idx))]
    return out


def render(files, order=None):
    """-> list of (path, text) in the given creation order"""
    paths = order or list(files)
    return [(p, HDR + "".join(it.src for it in files[p])) for p in paths]


# ---------------------------------------------------------------- transformations
def t_noise(rnd, files):
    """comments / whitespace / doc comments — pure noise"""
    out = {}
    for p, items in files.items():
        new = []
        for it in items:
            src = it.src
            r = rnd.random()
            if r < 0.3:
                src = "// noise comment mentioning #[tauri::command] and struct Foo\n" + src
            elif r < 0.5:
                src = "/* block\n   comment */\n" + src
            elif r < 0.7:
                src = "\n\n\n" + src.replace("\n    ", "\n        ") if it.kind != "event" else src
            elif r < 0.8:
                src = "/// a doc comment\n" + src
            new.append(Item(it.kind, it.name, src))
        out[p] = new
    return out, "noise"


def t_crlf(rnd, files):
    """Windows line endings, tabs for indentation, trailing blanks, an inner attribute on top: whitespace-level noise only"""
    out = {}
    for p, items in files.items():
        new = []
        for k, it in enumerate(items):
            src = it.src.replace("\n    ", "\n\t") if rnd.random() < 0.5 else it.src
            src = src.replace("\n", " \r\n") if rnd.random() < 0.8 else src.replace("\n", "\r\n")
            new.append(Item(it.kind, it.name, src))
        out[p] = new
    return out, "noise"


def t_oneline(rnd, files):
    """line breaks are whitespace: every function body is put on ONE line (several statements, several emits per line)"""
    import re
    out = {}
    for p, items in files.items():
        new = []
        for it in items:
            src = it.src
            if it.kind in ("event", "command"):
                src = re.sub(r"\{\n((?:    .*\n)+)\}", lambda m: "{ " + " ".join(l.strip() for l in m.group(1).splitlines()) + " }", src)
            new.append(Item(it.kind, it.name, src))
        out[p] = new
    return out, "noise"


def t_decoys(rnd, files):
    """non-command functions and non-serde items — must not change anything"""
    out = {p: list(items) for p, items in files.items()}
    for p in out:
        k = rnd.randint(1, 3)
        for j in range(k):
            nm = "decoy_%d_%d" % (sum(map(ord, p)) % 1000, j)
            src = rnd.choice([
                "pub fn %s(x: i32) -> i32 { x + 1 }\n\n" % nm,
                "#[derive(Debug, Clone)]\npub struct %s { pub hidden: i32 }\n\n" % nm.title().replace("_", ""),
                "pub const %s: i32 = 3;\n\n" % nm.upper(),
                "pub trait %s { fn go(&self); }\n\n" % nm.title().replace("_", ""),
                "impl Default for Plain%s { fn default() -> Self { Plain%s } }\npub struct Plain%s;\n\n" % (nm.title().replace("_", ""), nm.title().replace("_", ""), nm.title().replace("_", "")),
                "type Alias%s = Vec<String>;\n\n" % nm.title().replace("_", ""),
                # functions of other frameworks whose attributes merely look like Tauri's, and Tauri-annotated functions that are not
                # top-level items: not commands
                "#[poise::command(slash_command)]\npub async fn %s(ctx: Context<'_>, user: String) -> Result<(), Error> {\n    todo!()\n}\n\n" % nm,
                "#[clap::command(name = \"x\")]\npub fn %s(flag: bool) {}\n\n" % nm,
                "#[mycrate::tauri::command]\npub fn %s(a: i32) -> i32 { a }\n\n" % nm,
                "#[tauri::command::hidden]\npub fn %s(a: i32) -> i32 { a }\n\n" % nm,
                "#[commands]\npub fn %s(a: i32) -> i32 { a }\n\n" % nm,
                "pub struct Svc%s;\nimpl Svc%s {\n    #[tauri::command]\n    pub fn %s(&self, a: i32) -> i32 { a }\n}\n\n" % (nm.title().replace("_", ""), nm.title().replace("_", ""), nm),
                "#[cfg(test)]\nmod tests_%s {\n    #[tauri::command]\n    fn %s() {}\n}\n\n" % (nm, nm),
            ])
            out[p].insert(rnd.randint(0, len(out[p])), Item("decoy", nm, src))
    return out, "noise"


def t_reorder(rnd, files):
    out = {}
    for p, items in files.items():
        items = list(items)
        rnd.shuffle(items)
        out[p] = items
    return out, "order"


def t_move(rnd, files):
    out = {p: list(items) for p, items in files.items()}
    paths = list(out)
    for _ in range(rnd.randint(1, 4)):
        src = rnd.choice(paths)
        if not out[src]:
            continue
        it = out[src].pop(rnd.randrange(len(out[src])))
        out[rnd.choice(paths)].append(it)
    return out, "order"


def t_split(rnd, files):
    out = {p: list(items) for p, items in files.items()}
    p = rnd.choice(list(out))
    items = out[p]
    if len(items) >= 2:
        k = rnd.randint(1, len(items) - 1)
        out[p] = items[:k]
        out["split_%d.rs" % rnd.randint(0, 99)] = items[k:]
    return out, "order"


def t_merge(rnd, files):
    out = {p: list(items) for p, items in files.items()}
    if len(out) >= 2:
        a, b = rnd.sample(list(out), 2)
        out[a] = out[a] + out.pop(b)
    return out, "order"


def t_rename_files(rnd, files):
    out = {}
    for i, (p, items) in enumerate(files.items()):
        out["%srenamed_%s_%d.rs" % ("deep/er/" if rnd.random() < 0.3 else "", rnd.choice("azmq"), i)] = list(items)
    return out, "order"


TRANSFORMS = [t_noise, t_decoys, t_reorder, t_move, t_split, t_merge, t_rename_files, t_crlf, t_oneline]
