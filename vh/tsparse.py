"""TypeScript / Zod parse oracle (hand written; no tsc exists in the sandbox).

Covers a superset of what the generator's templates can emit and is strict on the points the
properties name: balanced / well nested type expressions, legal binding identifiers, quoted
non-identifier property keys, correctly escaped string literals, no Rust surface syntax.

parse_module(text) -> Module(items=[...], errors=[...]).  Error recovery resynchronises at the next
column-0 `export` / `import`, so one bad declaration neither hides the others nor blinds other monitors.
"""
import re

import unicodedata

RESERVED = {
    "break", "case", "catch", "class", "const", "continue", "debugger", "default", "delete", "do", "else", "enum",
    "export", "extends", "false", "finally", "for", "function", "if", "import", "in", "instanceof", "new", "null",
    "return", "super", "switch", "this", "throw", "true", "try", "typeof", "var", "void", "while", "with", "yield",
    # strict mode (ES modules are always strict)
    "let", "static", "implements", "interface", "package", "private", "protected", "public", "await",
}
STRICT_BINDING_FORBIDDEN = {"arguments", "eval"}
# names a type declaration may not take (TS2427 / TS2457 etc.)
PREDEFINED_TYPE_NAMES = {"any", "unknown", "never", "string", "number", "boolean", "symbol", "object", "void",
                         "undefined", "null", "bigint"}


class TsError(Exception):
    def __init__(self, msg, tok):
        Exception.__init__(self, msg)
        self.msg, self.tok = msg, tok


class Tok:
    __slots__ = ("k", "v", "raw", "pos", "line", "col", "nl")

    def __init__(self, k, v, raw, pos, line, col, nl):
        self.k, self.v, self.raw, self.pos, self.line, self.col, self.nl = k, v, raw, pos, line, col, nl

    def __repr__(self):
        return "%s(%r)@%d:%d" % (self.k, self.raw, self.line, self.col)


def _id_start(c):
    if c in "$_":
        return True
    if c.isascii():
        return c.isalpha()
    return unicodedata.category(c) in ("Lu", "Ll", "Lt", "Lm", "Lo", "Nl")


def _id_part(c):
    if _id_start(c):
        return True
    if c.isascii():
        return c.isdigit()
    return unicodedata.category(c) in ("Mn", "Mc", "Nd", "Pc") or c in "‌‍"


PUNCT3 = ("...", "===", "!==", "**=", "<<=", "&&=", "||=", "??=")
PUNCT2 = ("=>", "==", "!=", "<=", "&&", "||", "??", "?.", "++", "--", "+=", "-=", "*=", "/=", "%=", "|=", "&=", "^=", "**", "<<")
PUNCT1 = "{}()[];,<>+-*/%&|^!~?:=.@#"


def js_number_name(val, raw):
    """the property name a numeric literal key denotes: ToString of its value (12345678901234567890123 names "1.2345678901234568e+22")"""
    try:
        if val != val or val in (float("inf"), float("-inf")):
            return raw
        if val == int(val) and abs(val) < 1e21:
            return str(int(val))
        r = repr(val)
        m = re.match(r"^(-?[0-9.]+)e([+-])0*(\d+)$", r)
        return "%se%s%s" % (m.group(1), m.group(2), m.group(3)) if m else r
    except (OverflowError, ValueError):
        return raw


def lex(src):
    toks = []
    errors = []
    i, n = 0, len(src)
    line, linestart = 1, 0
    nl = False

    def err(msg, pos):
        errors.append((msg, line, pos - linestart))

    while i < n:
        c = src[i]
        if c == "\n":
            line += 1
            linestart = i + 1
            i += 1
            nl = True
            continue
        if c in " \t\r﻿ ":
            i += 1
            continue
        if c == "/" and i + 1 < n and src[i + 1] == "/":
            while i < n and src[i] != "\n":
                i += 1
            continue
        if c == "/" and i + 1 < n and src[i + 1] == "*":
            j = src.find("*/", i + 2)
            if j < 0:
                err("unterminated block comment", i)
                i = n
                break
            seg = src[i:j + 2]
            k = seg.count("\n")
            if k:
                line += k
                linestart = i + seg.rfind("\n") + 1
                nl = True
            i = j + 2
            continue
        col = i - linestart
        if _id_start(c):
            j = i + 1
            while j < n and _id_part(src[j]):
                j += 1
            toks.append(Tok("id", src[i:j], src[i:j], i, line, col, nl))
            nl = False
            i = j
            continue
        if c.isdigit() or (c == "." and i + 1 < n and src[i + 1].isdigit()):
            j = i
            if c == "0" and i + 1 < n and src[i + 1] in "xXbBoO":
                j = i + 2
                while j < n and (src[j].isalnum() or src[j] == "_"):
                    j += 1
            else:
                while j < n and (src[j].isdigit() or src[j] == "_"):
                    j += 1
                if j < n and src[j] == ".":
                    j += 1
                    while j < n and (src[j].isdigit() or src[j] == "_"):
                        j += 1
                if j < n and src[j] in "eE":
                    k = j + 1
                    if k < n and src[k] in "+-":
                        k += 1
                    if k < n and src[k].isdigit():
                        j = k
                        while j < n and src[j].isdigit():
                            j += 1
                if j < n and src[j] == "n":
                    j += 1
            raw = src[i:j]
            if j < n and _id_start(src[j]):
                err("identifier starts immediately after numeric literal %r" % raw, i)
            if len(raw) > 1 and raw[0] == "0" and raw[1].isdigit():
                # 007 / 08: legacy octal-like literals are a syntax error in module (strict) code
                err("numeric literal %r with a leading zero (not allowed in modules)" % raw, i)
            try:
                val = float(int(raw, 0)) if raw[:2].lower() in ("0x", "0b", "0o") else float(raw.replace("_", "").rstrip("n"))
            except ValueError:
                err("bad numeric literal %r" % raw, i)
                val = float("nan")
            toks.append(Tok("num", val, raw, i, line, col, nl))
            nl = False
            i = j
            continue
        if c in "\"'":
            j = i + 1
            out = []
            ok = False
            while j < n:
                d = src[j]
                if d == c:
                    ok = True
                    break
                if d == "\n" or d == "\r":
                    break
                if d == "\\":
                    j += 1
                    if j >= n:
                        break
                    e = src[j]
                    if e == "n":
                        out.append("\n")
                    elif e == "t":
                        out.append("\t")
                    elif e == "r":
                        out.append("\r")
                    elif e == "b":
                        out.append("\b")
                    elif e == "f":
                        out.append("\f")
                    elif e == "v":
                        out.append("\v")
                    elif e == "0" and not (j + 1 < n and src[j + 1].isdigit()):
                        out.append("\0")
                    elif e == "x":
                        h = src[j + 1:j + 3]
                        try:
                            if len(h) != 2 or not all(c_ in "0123456789abcdefABCDEF" for c_ in h):
                                raise ValueError
                            out.append(chr(int(h, 16)))
                        except ValueError:
                            err("bad \\x escape in string literal", j)
                        j += 2
                    elif e == "u":
                        if j + 1 < n and src[j + 1] == "{":
                            k = src.find("}", j)
                            try:
                                if k < 0 or not src[j + 2:k] or not all(c_ in "0123456789abcdefABCDEF" for c_ in src[j + 2:k]):
                                    raise ValueError
                                out.append(chr(int(src[j + 2:k], 16)))
                            except (ValueError, OverflowError):
                                err("bad \\u{} escape in string literal", j)
                            j = k if k > 0 else j
                        else:
                            h = src[j + 1:j + 5]
                            try:
                                if len(h) != 4 or not all(c_ in "0123456789abcdefABCDEF" for c_ in h):     # int() alone would take " 3f" or "0x1f"
                                    raise ValueError
                                out.append(chr(int(h, 16)))
                            except ValueError:
                                err("bad \\u escape in string literal", j)
                            j += 4
                    elif e == "\n":
                        line += 1
                        linestart = j + 1
                    elif e.isdigit():
                        err("octal escape in string literal (illegal in modules)", j)
                    else:
                        out.append(e)
                    j += 1
                    continue
                out.append(d)
                j += 1
            if not ok:
                err("unterminated string literal", i)
                # resync at end of line
                while j < n and src[j] != "\n":
                    j += 1
                toks.append(Tok("str", "".join(out), src[i:j], i, line, col, nl))
                nl = False
                i = j
                continue
            toks.append(Tok("str", "".join(out), src[i:j + 1], i, line, col, nl))
            nl = False
            i = j + 1
            continue
        if c == "`":
            j = i + 1
            depth = 0
            while j < n:
                d = src[j]
                if d == "\\":
                    j += 2
                    continue
                if d == "`" and depth == 0:
                    break
                if d == "$" and j + 1 < n and src[j + 1] == "{":
                    depth += 1
                    j += 2
                    continue
                if d == "}" and depth > 0:
                    depth -= 1
                if d == "\n":
                    line += 1
                    linestart = j + 1
                j += 1
            if j >= n:
                err("unterminated template literal", i)
            toks.append(Tok("template", src[i + 1:j], src[i:j + 1], i, line, col, nl))
            nl = False
            i = j + 1
            continue
        three, two = src[i:i + 3], src[i:i + 2]
        if three in PUNCT3:
            toks.append(Tok("p", three, three, i, line, col, nl))
            nl = False
            i += 3
            continue
        if two == "::":
            err("Rust path separator '::' in output", i)
            toks.append(Tok("p", "::", "::", i, line, col, nl))
            nl = False
            i += 2
            continue
        if two in PUNCT2:
            toks.append(Tok("p", two, two, i, line, col, nl))
            nl = False
            i += 2
            continue
        if c in PUNCT1:
            if c == "#" and toks and toks[-1].k == "id" and toks[-1].v == "r" and toks[-1].pos + 1 == i:
                err("Rust raw-identifier prefix 'r#' in output", i)
            toks.append(Tok("p", c, c, i, line, col, nl))
            nl = False
            i += 1
            continue
        err("illegal character %r" % c, i)
        i += 1
    toks.append(Tok("eof", None, "<eof>", n, line, 0, True))
    return toks, errors


# ------------------------------------------------------------------------------------------- AST helpers
# Types: ("ref", qualified_name, [typeargs]) | ("array", T) | ("tuple", [T]) | ("union", [T]) | ("inter", [T])
#        ("lit", value) | ("object", [members]) | ("func", params, ret) | ("typeof", name) | ("keyof", T) | ("indexed", T, T)
#        ("paren", T)
# members: ("prop", key, quoted(bool|'num'), optional, T) | ("index", keyname, keyT, valT) | ("method", key, params, ret)
# Expr:  ("id", name) | ("str", v) | ("num", v, raw) | ("tmpl", raw) | ("bool", b) | ("null",) | ("undefined",)
#        ("member", obj, name, optional_chain) | ("index", obj, expr) | ("call", callee, [args], [typeargs], optional_chain)
#        ("new", callee, args) | ("object", [props]) | ("array", [elems]) | ("arrow", params, body, is_async)
#        ("unary", op, e) | ("binary", op, a, b) | ("cond", c, a, b) | ("await", e) | ("as", e, T) | ("spread", e)
#        ("assign", op, a, b) | ("nonnull", e) | ("paren", e) | ("func", name, params, body)
# props: ("prop", key, quoted, value) | ("shorthand", name) | ("spread", expr) | ("method", key, params, body)


class Module:
    def __init__(self):
        self.items = []
        self.errors = []   # dicts: msg,line,col,token,construct,text

    def ok(self):
        return not self.errors


class Parser:
    def __init__(self, src):
        self.src = src
        self.toks, lexerrs = lex(src)
        self.i = 0
        self.lexerrs = lexerrs
        self.binding_errors = []

    # -- token helpers
    @property
    def t(self):
        return self.toks[self.i]

    def peek(self, k=1):
        j = min(self.i + k, len(self.toks) - 1)
        return self.toks[j]

    def isp(self, v, tok=None):
        tok = tok or self.t
        return tok.k == "p" and tok.v == v

    def isid(self, v=None, tok=None):
        tok = tok or self.t
        return tok.k == "id" and (v is None or tok.v == v)

    def eat(self):
        tok = self.toks[self.i]
        if tok.k != "eof":
            self.i += 1
        return tok

    def expectp(self, v):
        if not self.isp(v):
            raise TsError("expected %r" % v, self.t)
        return self.eat()

    def acceptp(self, v):
        if self.isp(v):
            self.eat()
            return True
        return False

    def acceptid(self, v):
        if self.isid(v):
            self.eat()
            return True
        return False

    def binding_ident(self, what, type_name=False):
        tok = self.t
        if tok.k != "id":
            raise TsError("expected identifier for %s" % what, tok)
        self.eat()
        if tok.v in RESERVED or tok.v in STRICT_BINDING_FORBIDDEN:
            self.binding_errors.append(("%s name %r is a reserved word" % (what, tok.v), tok))
        elif type_name and tok.v in PREDEFINED_TYPE_NAMES:
            self.binding_errors.append(("%s name %r is a predefined type name" % (what, tok.v), tok))
        return tok.v

    # -- module
    def parse_module(self):
        m = Module()
        for (msg, line, col) in self.lexerrs:
            m.errors.append({"msg": msg, "line": line, "col": col, "token": "", "construct": "lexical", "text": self._line_text(line)})
        while self.t.k != "eof":
            start = self.i
            nbind = len(self.binding_errors)
            try:
                item = self.parse_item()
                if item is not None:
                    m.items.append(item)
            except TsError as e:
                tok = e.tok
                st = self.toks[start]
                m.errors.append({"msg": e.msg, "line": tok.line, "col": tok.col, "token": tok.raw[:40],
                                 "construct": self._construct_at(start), "text": self._line_text(st.line)})
                # resync: next column-0 export/import after the start token
                self.i = max(self.i, start + 1)
                while self.t.k != "eof" and not (self.t.col == 0 and self.t.k == "id" and self.t.v in ("export", "import")):
                    self.i += 1
            for (msg, tok) in self.binding_errors[nbind:]:
                m.errors.append({"msg": msg, "line": tok.line, "col": tok.col, "token": tok.raw[:40],
                                 "construct": self._construct_at(start), "text": self._line_text(tok.line)})
        return m

    def _line_text(self, line):
        lines = self.src.split("\n")
        return lines[line - 1][:160] if 0 < line <= len(lines) else ""

    def _construct_at(self, idx):
        ws = [t.raw for t in self.toks[idx:idx + 3]]
        if ws and ws[0] == "export":
            ws = ws[1:]
        if ws and ws[0] == "async":
            ws = ws[1:]
        return ws[0] if ws else "?"

    def parse_item(self):
        tok = self.t
        line = tok.line
        if self.isid("import"):
            return self.parse_import()
        exported = False
        if self.isid("export"):
            self.eat()
            exported = True
            if self.isp("*"):
                self.eat()
                alias = None
                if self.acceptid("as"):
                    alias = self.binding_ident("namespace export")
                if not self.acceptid("from"):
                    raise TsError("expected 'from'", self.t)
                if self.t.k != "str":
                    raise TsError("expected module specifier", self.t)
                spec = self.eat().v
                self.acceptp(";")
                return {"kind": "export_all", "from": spec, "alias": alias, "line": line}
            if self.isp("{"):
                names = self.parse_named_bindings()
                spec = None
                if self.acceptid("from"):
                    spec = self.eat().v
                self.acceptp(";")
                return {"kind": "export_named", "names": names, "from": spec, "line": line}
            if self.isid("default"):
                self.eat()
                e = self.parse_assign()
                self.acceptp(";")
                return {"kind": "export_default", "expr": e, "line": line}
        if self.isid("declare"):
            self.eat()
        if self.isid("interface"):
            self.eat()
            name = self.binding_ident("interface", type_name=True)
            tparams = self.parse_type_params_opt()
            ext = []
            if self.acceptid("extends"):
                ext.append(self.parse_type())
                while self.acceptp(","):
                    ext.append(self.parse_type())
            members = self.parse_object_type_body()
            return {"kind": "interface", "name": name, "exported": exported, "tparams": tparams, "extends": ext,
                    "members": members, "line": line}
        if self.isid("type") and self.peek().k == "id":
            self.eat()
            name = self.binding_ident("type alias", type_name=True)
            tparams = self.parse_type_params_opt()
            self.expectp("=")
            ty = self.parse_type()
            self.end_stmt()
            return {"kind": "type", "name": name, "exported": exported, "tparams": tparams, "type": ty, "line": line}
        if self.isid("const") or self.isid("let") or self.isid("var"):
            kw = self.eat().v
            name = self.binding_ident("variable")
            ann = None
            if self.acceptp(":"):
                ann = self.parse_type()
            init = None
            if self.acceptp("="):
                init = self.parse_assign()
            elif kw == "const":
                raise TsError("const declaration needs an initializer", self.t)
            self.end_stmt()
            return {"kind": "const", "name": name, "exported": exported, "type": ann, "init": init, "line": line, "decl": kw}
        is_async = False
        if self.isid("async") and self.isid("function", self.peek()):
            self.eat()
            is_async = True
        if self.isid("function"):
            self.eat()
            self.acceptp("*")
            name = self.binding_ident("function")
            tparams = self.parse_type_params_opt()
            params = self.parse_params()
            ret = None
            if self.acceptp(":"):
                ret = self.parse_type()
            body = self.parse_block()
            return {"kind": "function", "name": name, "exported": exported, "async": is_async, "tparams": tparams,
                    "params": params, "ret": ret, "body": body, "line": line}
        if self.isid("class") or self.isid("enum") or self.isid("namespace"):
            raise TsError("unsupported declaration %r (never emitted by the templates)" % self.t.v, self.t)
        if exported:
            raise TsError("unexpected token after 'export'", self.t)
        st = self.parse_statement()
        return {"kind": "stmt", "stmt": st, "line": line}

    def end_stmt(self):
        if self.acceptp(";"):
            return
        if self.t.k == "eof" or self.isp("}") or self.t.nl:
            return
        raise TsError("expected ';' or end of statement", self.t)

    def parse_import(self):
        line = self.t.line
        self.eat()
        if self.t.k == "str":
            spec = self.eat().v
            self.acceptp(";")
            return {"kind": "import", "from": spec, "default": None, "ns": None, "names": [], "line": line}
        type_only = False
        if self.isid("type") and not self.isid("from", self.peek()) and not self.isp(",", self.peek()):
            self.eat()
            type_only = True
        default = ns = None
        names = []
        if self.t.k == "id" and not self.isp("{") and not self.isp("*"):
            default = self.binding_ident("import")
            self.acceptp(",")
        if self.isp("*"):
            self.eat()
            if not self.acceptid("as"):
                raise TsError("expected 'as'", self.t)
            ns = self.binding_ident("namespace import")
        elif self.isp("{"):
            names = self.parse_named_bindings()
        if not self.acceptid("from"):
            raise TsError("expected 'from'", self.t)
        if self.t.k != "str":
            raise TsError("expected module specifier", self.t)
        spec = self.eat().v
        self.acceptp(";")
        return {"kind": "import", "from": spec, "default": default, "ns": ns, "names": names, "type_only": type_only, "line": line}

    def parse_named_bindings(self):
        self.expectp("{")
        names = []
        while not self.isp("}"):
            ty = False
            if self.isid("type") and self.peek().k == "id" and not self.isid("as", self.peek()):
                self.eat()
                ty = True
            if self.t.k not in ("id", "str"):
                raise TsError("expected import/export name", self.t)
            orig = self.eat().v
            local = orig
            if self.acceptid("as"):
                local = self.binding_ident("import alias")
            elif orig in RESERVED:
                self.binding_errors.append(("imported binding %r is a reserved word" % orig, self.toks[self.i - 1]))
            names.append((orig, local, ty))
            if not self.acceptp(","):
                break
        self.expectp("}")
        return names

    # -- types
    def parse_type_params_opt(self):
        res = []
        if self.isp("<"):
            self.eat()
            while True:
                name = self.binding_ident("type parameter", type_name=True)
                cons = dflt = None
                if self.acceptid("extends"):
                    cons = self.parse_type()
                if self.acceptp("="):
                    dflt = self.parse_type()
                res.append((name, cons, dflt))
                if not self.acceptp(","):
                    break
            self.expectp(">")
        return res

    def parse_type(self):
        # function type?
        if self.isp("(") or self.isp("<"):
            save = self.i
            nb = len(self.binding_errors)
            try:
                tps = self.parse_type_params_opt()
                params = self.parse_params()
                if self.isp("=>"):
                    self.eat()
                    ret = self.parse_type()
                    return ("func", params, ret)
            except TsError:
                pass
            self.i = save
            del self.binding_errors[nb:]
        if self.isid("new") and self.isp("(", self.peek()):
            self.eat()
            params = self.parse_params()
            self.expectp("=>")
            return ("func", params, self.parse_type())
        return self.parse_union()

    def parse_union(self):
        self.acceptp("|")
        parts = [self.parse_inter()]
        while self.isp("|"):
            self.eat()
            parts.append(self.parse_inter())
        return parts[0] if len(parts) == 1 else ("union", parts)

    def parse_inter(self):
        self.acceptp("&")
        parts = [self.parse_postfix_type()]
        while self.isp("&"):
            self.eat()
            parts.append(self.parse_postfix_type())
        return parts[0] if len(parts) == 1 else ("inter", parts)

    def parse_postfix_type(self):
        if self.isid("keyof") or self.isid("readonly") or self.isid("unique"):
            kw = self.eat().v
            return (kw, self.parse_postfix_type())
        ty = self.parse_primary_type()
        while self.isp("[") and not self.t.nl:
            self.eat()
            if self.acceptp("]"):
                ty = ("array", ty)
            else:
                idx = self.parse_type()
                self.expectp("]")
                ty = ("indexed", ty, idx)
        return ty

    def parse_primary_type(self):
        tok = self.t
        if self.isp("("):
            self.eat()
            ty = self.parse_type()
            self.expectp(")")
            return ("paren", ty)
        if self.isp("["):
            self.eat()
            elems = []
            while not self.isp("]"):
                if self.isp("..."):
                    self.eat()
                # optional label
                if self.t.k == "id" and (self.isp(":", self.peek()) or (self.isp("?", self.peek()) and self.isp(":", self.peek(2)))):
                    self.eat()
                    self.acceptp("?")
                    self.expectp(":")
                e = self.parse_type()
                self.acceptp("?")
                elems.append(e)
                if not self.acceptp(","):
                    break
            self.expectp("]")
            return ("tuple", elems)
        if self.isp("{"):
            return ("object", self.parse_object_type_body())
        if tok.k == "str":
            self.eat()
            return ("lit", tok.v)
        if tok.k == "num":
            self.eat()
            return ("lit", tok.v)
        if self.isp("-") and self.peek().k == "num":
            self.eat()
            return ("lit", -self.eat().v)
        if tok.k == "template":
            self.eat()
            return ("tmpl", tok.v)
        if tok.k == "id":
            if tok.v == "typeof":
                self.eat()
                if self.isid("import"):
                    raise TsError("typeof import() unsupported", self.t)
                name = self.parse_qualified()
                return ("typeof", name)
            if tok.v in ("true", "false"):
                self.eat()
                return ("lit", tok.v == "true")
            if tok.v in RESERVED and tok.v not in ("void", "null", "this", "undefined"):
                raise TsError("reserved word %r used as a type" % tok.v, tok)
            name = self.parse_qualified()
            args = []
            if self.isp("<") and not self.t.nl:
                self.eat()
                args.append(self.parse_type())
                while self.acceptp(","):
                    args.append(self.parse_type())
                self.expectp(">")
            return ("ref", name, args)
        raise TsError("expected a type", tok)

    def parse_qualified(self):
        if self.t.k != "id":
            raise TsError("expected a name", self.t)
        parts = [self.eat().v]
        while self.isp(".") and self.peek().k == "id":
            self.eat()
            parts.append(self.eat().v)
        return ".".join(parts)

    def parse_object_type_body(self):
        self.expectp("{")
        members = []
        while not self.isp("}"):
            if self.t.k == "eof":
                raise TsError("unterminated object type", self.t)
            self.acceptid("readonly") if (self.isid("readonly") and self.peek().k in ("id", "str", "num") or self.isid("readonly") and self.isp("[", self.peek())) else None
            if self.isp("["):
                # index signature or computed key
                self.eat()
                if self.t.k == "id" and self.isp(":", self.peek()):
                    kname = self.eat().v
                    self.eat()
                    kty = self.parse_type()
                    self.expectp("]")
                    self.expectp(":")
                    vty = self.parse_type()
                    members.append(("index", kname, kty, vty))
                elif self.t.k == "id" and self.isid("in", self.peek()):
                    kname = self.eat().v
                    self.eat()
                    kty = self.parse_type()
                    self.expectp("]")
                    self.acceptp("?")
                    self.expectp(":")
                    vty = self.parse_type()
                    members.append(("mapped", kname, kty, vty))
                else:
                    raise TsError("computed property keys are not supported", self.t)
            elif self.isp("(") or self.isp("<"):
                self.parse_type_params_opt()
                params = self.parse_params()
                ret = None
                if self.acceptp(":"):
                    ret = self.parse_type()
                members.append(("call", params, ret))
            else:
                tok = self.t
                if tok.k == "id":
                    key, quoted = tok.v, False
                elif tok.k == "str":
                    key, quoted = tok.v, True
                elif tok.k == "num":
                    key, quoted = js_number_name(tok.v, tok.raw), "num"
                else:
                    raise TsError("expected a property name (identifier, string or number)", tok)
                self.eat()
                opt = self.acceptp("?")
                if self.isp("(") or self.isp("<"):
                    self.parse_type_params_opt()
                    params = self.parse_params()
                    ret = None
                    if self.acceptp(":"):
                        ret = self.parse_type()
                    members.append(("method", key, params, ret))
                else:
                    if not self.isp(":"):
                        raise TsError("expected ':' after property name %r" % (key,), self.t)
                    self.eat()
                    ty = self.parse_type()
                    members.append(("prop", key, quoted, opt, ty))
            if self.acceptp(";") or self.acceptp(","):
                continue
            if self.isp("}"):
                break
            if self.t.nl:
                continue
            raise TsError("expected ';' between members", self.t)
        self.expectp("}")
        return members

    def parse_params(self):
        self.expectp("(")
        params = []
        while not self.isp(")"):
            if self.t.k == "eof":
                raise TsError("unterminated parameter list", self.t)
            rest = self.acceptp("...")
            if self.isp("{") or self.isp("["):
                pat = self.parse_pattern()
                name = pat
            else:
                if self.isid("this") and self.isp(":", self.peek()):
                    name = self.eat().v
                else:
                    name = self.binding_ident("parameter")
            opt = self.acceptp("?")
            ty = None
            if self.acceptp(":"):
                ty = self.parse_type()
            dflt = None
            if self.acceptp("="):
                dflt = self.parse_assign()
            params.append((name, opt, ty, dflt, rest))
            if not self.acceptp(","):
                break
        self.expectp(")")
        return params

    def parse_pattern(self):
        # destructuring pattern: consumed structurally (balanced) — binding names inside are checked
        open_, close = (self.t.v, "}" if self.t.v == "{" else "]")
        self.eat()
        names = []
        while not self.isp(close):
            if self.t.k == "eof":
                raise TsError("unterminated pattern", self.t)
            if self.isp("{") or self.isp("["):
                names.append(self.parse_pattern())
            elif self.isp("..."):
                self.eat()
                names.append(self.binding_ident("rest element"))
            elif self.t.k in ("id", "str", "num"):
                key = self.eat()
                if self.acceptp(":"):
                    if self.isp("{") or self.isp("["):
                        names.append(self.parse_pattern())
                    else:
                        names.append(self.binding_ident("pattern binding"))
                else:
                    if key.k != "id" or key.v in RESERVED:
                        self.binding_errors.append(("pattern binding %r is not a legal identifier" % key.raw, key))
                    names.append(key.v)
                if self.acceptp("="):
                    self.parse_assign()
            elif self.isp(","):
                pass
            else:
                raise TsError("bad pattern", self.t)
            if not self.acceptp(","):
                break
        self.expectp(close)
        return ("pattern", names)

    # -- statements
    def parse_block(self):
        self.expectp("{")
        stmts = []
        while not self.isp("}"):
            if self.t.k == "eof":
                raise TsError("unterminated block", self.t)
            stmts.append(self.parse_statement())
        self.expectp("}")
        return ("block", stmts)

    def parse_statement(self):
        tok = self.t
        if self.isp("{"):
            return self.parse_block()
        if self.isp(";"):
            self.eat()
            return ("empty",)
        if tok.k == "id":
            v = tok.v
            if v in ("const", "let", "var"):
                self.eat()
                decls = []
                while True:
                    if self.isp("{") or self.isp("["):
                        name = self.parse_pattern()
                    else:
                        name = self.binding_ident("variable")
                    ann = None
                    if self.acceptp(":"):
                        ann = self.parse_type()
                    init = None
                    if self.acceptp("="):
                        init = self.parse_assign()
                    elif v == "const":
                        raise TsError("const declaration needs an initializer", self.t)
                    decls.append((name, ann, init))
                    if not self.acceptp(","):
                        break
                self.end_stmt()
                return ("decl", v, decls)
            if v == "return":
                self.eat()
                e = None
                if not (self.isp(";") or self.isp("}") or self.t.nl or self.t.k == "eof"):
                    e = self.parse_expr()
                self.end_stmt()
                return ("return", e)
            if v == "throw":
                self.eat()
                if self.t.nl:
                    raise TsError("line break after throw", self.t)
                e = self.parse_expr()
                self.end_stmt()
                return ("throw", e)
            if v == "if":
                self.eat()
                self.expectp("(")
                c = self.parse_expr()
                self.expectp(")")
                a = self.parse_statement()
                b = None
                if self.acceptid("else"):
                    b = self.parse_statement()
                return ("if", c, a, b)
            if v == "try":
                self.eat()
                blk = self.parse_block()
                cparam = cblk = fblk = None
                if self.acceptid("catch"):
                    if self.acceptp("("):
                        cparam = self.binding_ident("catch parameter")
                        if self.acceptp(":"):
                            self.parse_type()
                        self.expectp(")")
                    cblk = self.parse_block()
                if self.acceptid("finally"):
                    fblk = self.parse_block()
                if cblk is None and fblk is None:
                    raise TsError("try without catch or finally", self.t)
                return ("try", blk, cparam, cblk, fblk)
            if v in ("for", "while", "do", "switch", "class", "with", "debugger"):
                raise TsError("statement %r is never emitted by the templates and is not supported" % v, tok)
            if v == "function" or (v == "async" and self.isid("function", self.peek())):
                is_async = v == "async"
                if is_async:
                    self.eat()
                self.eat()
                name = self.binding_ident("function")
                self.parse_type_params_opt()
                params = self.parse_params()
                ret = None
                if self.acceptp(":"):
                    ret = self.parse_type()
                body = self.parse_block()
                return ("funcdecl", name, params, ret, body, is_async)
            if v in ("break", "continue"):
                self.eat()
                self.end_stmt()
                return (v,)
        e = self.parse_expr()
        self.end_stmt()
        return ("expr", e)

    # -- expressions
    def parse_expr(self):
        e = self.parse_assign()
        while self.isp(","):
            self.eat()
            e = ("binary", ",", e, self.parse_assign())
        return e

    ASSIGN_OPS = {"=", "+=", "-=", "*=", "/=", "%=", "|=", "&=", "^=", "**=", "<<=", "&&=", "||=", "??="}
    BIN_PREC = {"??": 1, "||": 2, "&&": 3, "|": 4, "^": 5, "&": 6, "==": 7, "!=": 7, "===": 7, "!==": 7,
                "<": 8, ">": 8, "<=": 8, "instanceof": 8, "in": 8, "<<": 9, "+": 10, "-": 10, "*": 11, "/": 11, "%": 11, "**": 12}

    def try_arrow(self):
        """at '(' or identifier or 'async': parse an arrow function if one starts here, else return None"""
        save = self.i
        nb = len(self.binding_errors)
        try:
            is_async = False
            if self.isid("async") and not self.peek().nl and (self.isp("(", self.peek()) or self.peek().k == "id"):
                if self.isp("(", self.peek()) or self.isp("=>", self.peek(2)):
                    self.eat()
                    is_async = True
            if self.t.k == "id" and self.isp("=>", self.peek()):
                name = self.binding_ident("parameter")
                params = [(name, False, None, None, False)]
            elif self.isp("(") or self.isp("<"):
                self.parse_type_params_opt()
                params = self.parse_params()
                if self.isp(":"):
                    self.eat()
                    self.parse_type()
            else:
                raise TsError("no arrow", self.t)
            if not self.isp("=>"):
                raise TsError("no arrow", self.t)
            self.eat()
        except TsError:
            self.i = save
            del self.binding_errors[nb:]
            return None
        if self.isp("{"):
            body = self.parse_block()
        else:
            body = self.parse_assign()
        return ("arrow", params, body, is_async)

    def parse_assign(self):
        if self.isp("(") or self.isp("<") or (self.t.k == "id" and (self.isp("=>", self.peek()) or self.t.v == "async")):
            a = self.try_arrow()
            if a is not None:
                return a
        left = self.parse_cond()
        if self.t.k == "p" and self.t.v in self.ASSIGN_OPS:
            op = self.eat().v
            if left[0] not in ("id", "member", "index"):
                raise TsError("invalid assignment target", self.t)
            return ("assign", op, left, self.parse_assign())
        return left

    def parse_cond(self):
        c = self.parse_binary(0)
        if self.isp("?"):
            self.eat()
            a = self.parse_assign()
            self.expectp(":")
            b = self.parse_assign()
            return ("cond", c, a, b)
        return c

    def _binop(self):
        tok = self.t
        if tok.k == "p" and tok.v in self.BIN_PREC:
            # '>' '=' sequences etc.
            return tok.v
        if tok.k == "id" and tok.v in ("instanceof", "in"):
            return tok.v
        return None

    def parse_binary(self, minprec):
        left = self.parse_unary()
        while True:
            if self.isid("as") and not self.t.nl:
                self.eat()
                if self.isid("const"):
                    self.eat()
                    left = ("as", left, ("ref", "const", []))
                else:
                    left = ("as", left, self.parse_type())
                continue
            if self.isid("satisfies") and not self.t.nl:
                self.eat()
                left = ("as", left, self.parse_type())
                continue
            op = self._binop()
            if op is None:
                return left
            prec = self.BIN_PREC[op]
            if prec < minprec:
                return left
            self.eat()
            if op == ">" and self.isp("="):
                self.eat()
                op = ">="
            right = self.parse_binary(prec + 1)
            left = ("binary", op, left, right)

    def parse_unary(self):
        tok = self.t
        if tok.k == "p" and tok.v in ("!", "-", "+", "~", "++", "--"):
            self.eat()
            return ("unary", tok.v, self.parse_unary())
        if tok.k == "id" and tok.v in ("typeof", "void", "delete"):
            self.eat()
            return ("unary", tok.v, self.parse_unary())
        if tok.k == "id" and tok.v == "await":
            self.eat()
            return ("await", self.parse_unary())
        e = self.parse_postfix()
        if self.t.k == "p" and self.t.v in ("++", "--") and not self.t.nl:
            self.eat()
            e = ("unary", "post", e)
        return e

    def try_type_args_call(self):
        """at '<' after a callee: `<T, U>(` is a generic call. Returns typeargs or None (restores position)."""
        save = self.i
        nb = len(self.binding_errors)
        try:
            self.expectp("<")
            args = [self.parse_type()]
            while self.acceptp(","):
                args.append(self.parse_type())
            self.expectp(">")
            if not self.isp("("):
                raise TsError("not a generic call", self.t)
            return args
        except TsError:
            self.i = save
            del self.binding_errors[nb:]
            return None

    def parse_postfix(self):
        if self.isid("new"):
            self.eat()
            callee = self.parse_primary()
            while self.isp(".") and self.peek().k == "id":
                self.eat()
                callee = ("member", callee, self.eat().v, False)
            targs = []
            if self.isp("<"):
                targs = self.try_type_args_call() or []
            args = self.parse_args() if self.isp("(") else []
            e = ("new", callee, args, targs)
        else:
            e = self.parse_primary()
        while True:
            if self.isp("."):
                self.eat()
                if self.t.k != "id":
                    raise TsError("expected property name after '.'", self.t)
                e = ("member", e, self.eat().v, False)
            elif self.isp("?."):
                self.eat()
                if self.isp("("):
                    e = ("call", e, self.parse_args(), [], True)
                elif self.isp("["):
                    self.eat()
                    idx = self.parse_expr()
                    self.expectp("]")
                    e = ("index", e, idx)
                else:
                    if self.t.k != "id":
                        raise TsError("expected property name after '?.'", self.t)
                    e = ("member", e, self.eat().v, True)
            elif self.isp("[") and not self.t.nl:
                self.eat()
                idx = self.parse_expr()
                self.expectp("]")
                e = ("index", e, idx)
            elif self.isp("("):
                e = ("call", e, self.parse_args(), [], False)
            elif self.isp("<") and e[0] in ("id", "member"):
                targs = self.try_type_args_call()
                if targs is None:
                    return e
                e = ("call", e, self.parse_args(), targs, False)
            elif self.isp("!") and not self.t.nl and not self.isp("=", self.peek()):
                self.eat()
                e = ("nonnull", e)
            elif self.t.k == "template" and not self.t.nl:
                e = ("tagged", e, self.eat().v)
            else:
                return e

    def parse_args(self):
        self.expectp("(")
        args = []
        while not self.isp(")"):
            if self.t.k == "eof":
                raise TsError("unterminated argument list", self.t)
            if self.isp("..."):
                self.eat()
                args.append(("spread", self.parse_assign()))
            else:
                args.append(self.parse_assign())
            if not self.acceptp(","):
                break
        self.expectp(")")
        return args

    def parse_primary(self):
        tok = self.t
        if tok.k == "num":
            self.eat()
            return ("num", tok.v, tok.raw)
        if tok.k == "str":
            self.eat()
            return ("str", tok.v)
        if tok.k == "template":
            self.eat()
            return ("tmpl", tok.v)
        if self.isp("("):
            self.eat()
            e = self.parse_expr()
            self.expectp(")")
            return ("paren", e)
        if self.isp("["):
            self.eat()
            elems = []
            while not self.isp("]"):
                if self.t.k == "eof":
                    raise TsError("unterminated array literal", self.t)
                if self.isp(","):
                    self.eat()
                    elems.append(("hole",))
                    continue
                if self.isp("..."):
                    self.eat()
                    elems.append(("spread", self.parse_assign()))
                else:
                    elems.append(self.parse_assign())
                if not self.acceptp(","):
                    break
            self.expectp("]")
            return ("array", elems)
        if self.isp("{"):
            return self.parse_object_literal()
        if tok.k == "id":
            v = tok.v
            if v == "function" or (v == "async" and self.isid("function", self.peek())):
                if v == "async":
                    self.eat()
                self.eat()
                name = None
                if self.t.k == "id":
                    name = self.binding_ident("function")
                params = self.parse_params()
                if self.acceptp(":"):
                    self.parse_type()
                body = self.parse_block()
                return ("func", name, params, body)
            if v in ("true", "false"):
                self.eat()
                return ("bool", v == "true")
            if v == "null":
                self.eat()
                return ("null",)
            if v in ("this", "super"):
                self.eat()
                return ("id", v)
            if v in RESERVED:
                raise TsError("reserved word %r in expression position" % v, tok)
            self.eat()
            return ("id", v)
        raise TsError("expected an expression", tok)

    def parse_object_literal(self):
        self.expectp("{")
        props = []
        while not self.isp("}"):
            tok = self.t
            if tok.k == "eof":
                raise TsError("unterminated object literal", tok)
            if self.isp("..."):
                self.eat()
                props.append(("spread", self.parse_assign()))
            elif self.isp("["):
                self.eat()
                k = self.parse_assign()
                self.expectp("]")
                self.expectp(":")
                props.append(("computed", k, self.parse_assign()))
            else:
                if tok.k == "id":
                    key, quoted = tok.v, False
                elif tok.k == "str":
                    key, quoted = tok.v, True
                elif tok.k == "num":
                    key, quoted = js_number_name(tok.v, tok.raw), "num"
                else:
                    raise TsError("expected a property name (identifier, string or number) in object literal", tok)
                self.eat()
                if self.isp(":"):
                    self.eat()
                    props.append(("prop", key, quoted, self.parse_assign()))
                elif self.isp("("):
                    params = self.parse_params()
                    if self.acceptp(":"):
                        self.parse_type()
                    body = self.parse_block()
                    props.append(("method", key, params, body))
                elif (self.isp(",") or self.isp("}")) and tok.k == "id":
                    if key in RESERVED:
                        raise TsError("reserved word %r as shorthand property" % key, tok)
                    props.append(("shorthand", key))
                else:
                    raise TsError("expected ':' after property name %r in object literal" % (key,), self.t)
            if not self.acceptp(","):
                break
        self.expectp("}")
        return ("object", props)


def parse_module(text):
    p = Parser(text)
    return p.parse_module()


def parse_type_text(text):
    p = Parser(text)
    ty = p.parse_type()
    if p.t.k != "eof":
        raise TsError("trailing tokens after type", p.t)
    if p.lexerrs or p.binding_errors:
        raise TsError("lexical error in type", p.t)
    return ty


def parse_expr_text(text):
    p = Parser(text)
    e = p.parse_assign()
    if p.t.k != "eof":
        raise TsError("trailing tokens after expression", p.t)
    return e
