"""Common machinery: paths, building the code under test, running it, scratch space,
parallel map, verdict bookkeeping, evidence and known-findings handling."""
import concurrent.futures as cf
import hashlib
import json
import os
import re
import shutil
import signal
import subprocess
import sys
import time

VERIF = os.path.dirname(os.path.dirname(os.path.abspath(__file__)))
REPO = os.environ.get("VERIF_REPO", "/repo")
TARGET = os.environ.get("VERIF_TARGET") or os.path.join(VERIF, "target")   # VERIF_TARGET: tools/coverage.sh only
SHIM = os.path.join(VERIF, "shim", "hashseed.so")
SCRATCH_ROOT = "/dev/shm" if os.path.isdir("/dev/shm") else "/var/tmp"
WORKERS = int(os.environ.get("VERIF_WORKERS", "16"))
CARGO_ENV = dict(os.environ, CARGO_NET_OFFLINE="true", CARGO_TERM_COLOR="never")


class Inconclusive(Exception):
    pass


def seed():
    try:
        return int(os.environ.get("VERIF_SEED", "1"))
    except ValueError:
        return 1


def _repo_tag():
    return "repo" if REPO == "/repo" else "repo_" + hashlib.sha1(REPO.encode()).hexdigest()[:8]


_built = {}


def build_cli():
    """Build the real CLI from REPO's current working tree (dev profile). Returns the binary path."""
    if "cli" in _built:
        return _built["cli"]
    tdir = os.path.join(TARGET, _repo_tag())
    cmd = ["cargo", "build", "--offline", "--manifest-path", os.path.join(REPO, "Cargo.toml"),
           "--bin", "cargo-tauri-typegen", "--target-dir", tdir]
    p = subprocess.run(cmd, env=CARGO_ENV, capture_output=True, text=True)
    if p.returncode != 0:
        raise Inconclusive("build of the CLI from %s failed:\n%s" % (REPO, p.stderr[-3000:]))
    b = os.path.join(tdir, "debug", "cargo-tauri-typegen")
    if not os.path.exists(b):
        raise Inconclusive("CLI binary missing after build")
    _built["cli"] = b
    return b


def build_cli_release():
    if "cli_rel" in _built:
        return _built["cli_rel"]
    tdir = os.path.join(TARGET, _repo_tag())
    cmd = ["cargo", "build", "--release", "--offline", "--manifest-path", os.path.join(REPO, "Cargo.toml"),
           "--bin", "cargo-tauri-typegen", "--target-dir", tdir]
    p = subprocess.run(cmd, env=CARGO_ENV, capture_output=True, text=True)
    if p.returncode != 0:
        raise Inconclusive("release build of the CLI failed:\n%s" % p.stderr[-3000:])
    _built["cli_rel"] = os.path.join(tdir, "release", "cargo-tauri-typegen")
    return _built["cli_rel"]


def build_driver(release=False):
    key = "drv_rel" if release else "drv"
    if key in _built:
        return _built[key]
    cdir = os.path.join(TARGET, "driver_crate_" + _repo_tag())
    os.makedirs(os.path.join(cdir, "src"), exist_ok=True)
    tmpl = open(os.path.join(VERIF, "driver", "Cargo.toml.in")).read().replace("@REPO@", REPO)
    _write_if_changed(os.path.join(cdir, "Cargo.toml"), tmpl)
    for f in os.listdir(os.path.join(VERIF, "driver", "src")):
        _write_if_changed(os.path.join(cdir, "src", f), open(os.path.join(VERIF, "driver", "src", f)).read())
    lock = os.path.join(REPO, "Cargo.lock")
    if os.path.exists(lock) and not os.path.exists(os.path.join(cdir, "Cargo.lock")):
        shutil.copy(lock, os.path.join(cdir, "Cargo.lock"))
    tdir = os.path.join(TARGET, "driver_" + _repo_tag())
    cmd = ["cargo", "build", "--offline", "--manifest-path", os.path.join(cdir, "Cargo.toml"), "--target-dir", tdir]
    if release:
        cmd.append("--release")
    p = subprocess.run(cmd, env=CARGO_ENV, capture_output=True, text=True)
    if p.returncode != 0:
        raise Inconclusive("build of the driver against %s failed:\n%s" % (REPO, p.stderr[-3000:]))
    b = os.path.join(tdir, "release" if release else "debug", "vdriver")
    _built[key] = b
    return b


def _write_if_changed(path, content):
    try:
        if open(path).read() == content:
            return
    except OSError:
        pass
    with open(path, "w") as f:
        f.write(content)


# ---------------------------------------------------------------- scratch dirs
_scratch_n = [0]


def scratch(tag="c"):
    _scratch_n[0] += 1
    d = os.path.join(SCRATCH_ROOT, "verif-%d-%s-%d" % (os.getpid(), tag, _scratch_n[0]))
    if os.path.exists(d):
        shutil.rmtree(d, ignore_errors=True)
    os.makedirs(d)
    return d


def rmtree(d):
    if d and os.path.exists(d):
        # make sure nothing is left unremovable by permission games
        for root, dirs, files in os.walk(d):
            for x in dirs:
                try:
                    os.chmod(os.path.join(root, x), 0o755)
                except OSError:
                    pass
        shutil.rmtree(d, ignore_errors=True)


def write_tree(root, files):
    """files: list of (relative path, text) — created in the given order (tmpfs readdir = reverse creation)."""
    for rel, text in files:
        p = os.path.join(root, rel)
        os.makedirs(os.path.dirname(p), exist_ok=True)
        if text.startswith("\0symlink:"):
            # a symbolic link (target relative to the link's directory); replaces whatever is there
            if os.path.lexists(p):
                os.unlink(p)
            os.symlink(text[len("\0symlink:"):], p)
            continue
        if text.startswith("\0latin1:"):
            # a file in a legacy encoding: the text after the marker, written as Latin-1 bytes (not valid UTF-8 if it has any non-ASCII)
            with open(p, "wb") as f:
                f.write(text[len("\0latin1:"):].encode("latin-1"))
            continue
        with open(p, "w", encoding="utf-8") as f:
            f.write(text)


# ---------------------------------------------------------------- running the tool
class Run:
    __slots__ = ("rc", "out", "err", "timed_out", "sig")

    def __init__(self, rc, out, err, timed_out=False):
        self.rc, self.out, self.err, self.timed_out = rc, out, err, timed_out
        self.sig = -rc if rc is not None and rc < 0 else None

    @property
    def panicked(self):
        return "panicked at" in self.err or self.rc == 101

    def abnormal(self):
        """True if the process ended in a way C15 forbids (panic/abort/signal)."""
        return self.timed_out is False and (self.rc not in (0, 1) or "panicked at" in self.err)


def run(argv, cwd=None, hash_seed=None, timeout=60, env_extra=None, stdin=None, cpu_limit=None, fsize_limit=None):
    """cpu_limit: RLIMIT_CPU in seconds for the child. Unlike the wall-clock timeout (a watchdog whose firing is inconclusive), CPU
    time does not depend on how loaded the machine is: a child killed by SIGXCPU really computed for that long."""
    env = dict(os.environ)
    env.pop("LD_PRELOAD", None)
    env.pop("VERIF_HASH_SEED", None)
    env["NO_COLOR"] = "1"
    if hash_seed is not None:
        env["LD_PRELOAD"] = SHIM
        env["VERIF_HASH_SEED"] = str(hash_seed)
    if env_extra:
        env.update(env_extra)
    try:
        pre = None
        if cpu_limit:
            import resource

            def pre(_l=int(cpu_limit)):
                resource.setrlimit(resource.RLIMIT_CPU, (_l, _l + 5))
        elif fsize_limit:
            # RLIMIT_FSIZE in bytes with SIGXFSZ ignored (an ignored disposition survives exec): a write that crosses the limit is cut
            # short at it, the next one fails with EFBIG
            import resource
            import signal

            def pre(_l=int(fsize_limit)):
                signal.signal(signal.SIGXFSZ, signal.SIG_IGN)
                resource.setrlimit(resource.RLIMIT_FSIZE, (_l, _l))
        p = subprocess.run(argv, cwd=cwd, env=env, capture_output=True, timeout=timeout, stdin=subprocess.DEVNULL, preexec_fn=pre)
        return Run(p.returncode, p.stdout.decode("utf-8", "replace"), p.stderr.decode("utf-8", "replace"))
    except subprocess.TimeoutExpired as e:
        return Run(None, (e.stdout or b"").decode("utf-8", "replace"), (e.stderr or b"").decode("utf-8", "replace"), True)


def cli_generate(cli, project=None, out=None, mode=None, cwd=None, force=False, verbose=False, viz=False,
                 config=None, hash_seed=None, timeout=60, extra=None, cpu_limit=None):
    argv = [cli, "tauri-typegen", "generate"]
    if project is not None:
        argv += ["-p", project]
    if out is not None:
        argv += ["-o", out]
    if mode is not None:
        argv += ["-v", mode]
    if config is not None:
        argv += ["-c", config]
    if force:
        argv.append("--force")
    if verbose:
        argv.append("--verbose")
    if viz:
        argv.append("--visualize-deps")
    if extra:
        argv += extra
    return run(argv, cwd=cwd, hash_seed=hash_seed, timeout=timeout, cpu_limit=cpu_limit)


TS_LINE = re.compile(r"^ \* Generated at: .*\n", re.M)


def strip_ts(text):
    return TS_LINE.sub("", text)


def read_outputs(d, strip=True):
    res = {}
    if not os.path.isdir(d):
        return res
    for f in sorted(os.listdir(d)):
        p = os.path.join(d, f)
        if os.path.isfile(p) and not os.path.islink(p):
            try:
                t = open(p, encoding="utf-8", errors="replace").read()
            except OSError:
                continue
            res[f] = strip_ts(t) if strip and f.endswith(".ts") else t
    return res


def parse_fault(out, files=None):
    """first parse error of the given generated files as (signature suffix, description) — a file the property talks about that
    does not parse cannot satisfy the property either, so checks report this instead of silently skipping the case"""
    from .checks.c01 import classify_error
    for e in out.errors():
        if files is None or e["file"] in files:
            return ("%s %s" % (e["file"], classify_error(e)), "%s:%d:%d %s near %r | %s" % (e["file"], e["line"], e["col"], e["msg"], e["token"], e["text"]))
    return None


# ---------------------------------------------------------------- parallel map
def pmap(func, items, workers=None, chunksize=1, desc=None):
    items = list(items)
    if not items:
        return []
    workers = workers or WORKERS
    if workers <= 1 or len(items) == 1:
        return [func(x) for x in items]
    with cf.ProcessPoolExecutor(max_workers=min(workers, len(items))) as ex:
        return list(ex.map(func, items, chunksize=chunksize))


# ---------------------------------------------------------------- findings / verdict / evidence
def load_known():
    p = os.path.join(VERIF, "known_findings.json")
    try:
        return json.load(open(p))
    except (OSError, ValueError):
        return {"findings": []}


class Verdict:
    """Collects per-case outcomes of one check run and turns them into exit code + evidence."""

    def __init__(self, pid, level, tier):
        self.pid, self.level, self.tier = pid, level, tier
        self.t0 = time.time()
        self.evaluations = 0
        self.nontrivial = set()
        self.samples = []
        self.violations = {}   # signature -> dict(what, witness, count)
        self.known_seen = {}   # signature -> count
        self.blocked = 0
        self.inconclusive = []
        self.counters = {}
        self.extra = {}
        known = load_known().get("findings", [])
        self.open = {}
        for k in known:
            if k.get("property") == pid and k.get("status") == "open":
                self.open[k["signature"]] = k

    def count(self, key, n=1):
        self.counters[key] = self.counters.get(key, 0) + n

    def case(self, key=None, nontrivial=True, sample=None):
        self.evaluations += 1
        if nontrivial and key is not None:
            self.nontrivial.add(key if isinstance(key, (str, int)) else json.dumps(key, sort_keys=True, default=str))
        if sample is not None and len(self.samples) < 8:
            self.samples.append(sample)

    def violation(self, signature, what, witness=None):
        """witness: dict that is saved as JSON (must allow replay: sources, config, seeds, commands)."""
        if signature in self.open:
            self.known_seen[signature] = self.known_seen.get(signature, 0) + 1
            return False
        v = self.violations.get(signature)
        if v is None:
            self.violations[signature] = {"what": what, "witness": witness, "count": 1}
        else:
            v["count"] += 1
        return True

    def finish(self, rule, assumptions=None, min_nontrivial=2, exhaustive=None):
        wall = time.time() - self.t0
        # known findings
        for sig, k in self.open.items():
            if sig in self.known_seen:
                print("KNOWN-FINDING: property=%s %s [signature=%s; re-observed %d times]" %
                      (self.pid, k.get("what", ""), sig, self.known_seen[sig]))
            else:
                print("note: open known finding not re-observed in this run: %s" % sig)
        rc = 0
        wdir = os.path.join(VERIF, "witness", self.pid)
        for sig, v in sorted(self.violations.items()):
            h = hashlib.sha1(sig.encode()).hexdigest()[:12]
            d = os.path.join(wdir, h)
            os.makedirs(d, exist_ok=True)
            with open(os.path.join(d, "witness.json"), "w") as f:
                json.dump({"property": self.pid, "signature": sig, "what": v["what"], "count": v["count"],
                           "seed": seed(), "tier": self.tier, "witness": v["witness"]}, f, indent=1, default=str)
            print("VIOLATION property=%s replay=%s" % (self.pid, d))
            print("  signature: %s" % sig)
            print("  what: %s" % (v["what"][:600],))
            rc = 1
        cov = {
            "evaluations": self.evaluations,
            "distinct_nontrivial": len(self.nontrivial),
            "rule": rule,
            "samples": self.samples or ["(none)"],
            "blocked_cases": self.blocked,
            "known_findings_reobserved": {k: v for k, v in self.known_seen.items()},
            "unlisted_violation_signatures": sorted(self.violations)[:50],
            "counters": self.counters,
        }
        cov.update(self.extra)
        if exhaustive is not None:
            cov["exhaustive"] = exhaustive
        ev = {"property_id": self.pid, "tier": self.tier, "seed": seed(), "level": self.level, "coverage": cov,
              "assumptions": assumptions or [], "wall_s": round(wall, 2), "violations": len(self.violations)}
        if rc == 0:
            if self.inconclusive:
                print("INCONCLUSIVE property=%s %s" % (self.pid, "; ".join(self.inconclusive[:5])))
                rc = 2
            elif self.evaluations == 0 or len(self.nontrivial) < min_nontrivial:
                print("INCONCLUSIVE property=%s observed too little (evaluations=%d nontrivial=%d)" %
                      (self.pid, self.evaluations, len(self.nontrivial)))
                rc = 2
            elif self.evaluations and self.blocked > 0.2 * self.evaluations:
                print("INCONCLUSIVE property=%s %d of %d cases blocked" % (self.pid, self.blocked, self.evaluations))
                rc = 2
        ev["verdict"] = {0: "held-on-observed", 1: "violated", 2: "inconclusive"}[rc]
        evdir = os.environ.get("VERIF_EVIDENCE_DIR") or os.path.join(VERIF, "evidence")   # override: tools/coverage.sh only
        os.makedirs(evdir, exist_ok=True)
        with open(os.path.join(evdir, self.pid + ".json"), "w") as f:
            json.dump(ev, f, indent=1, default=str)
        print("%s %s tier=%s seed=%d evaluations=%d nontrivial=%d violations=%d known=%d wall=%.1fs" %
              (self.pid, ev["verdict"], self.tier, seed(), self.evaluations, len(self.nontrivial),
               len(self.violations), len(self.known_seen), wall))
        for k, v in sorted(self.counters.items()):
            print("  %s=%s" % (k, v))
        return rc
