"""Run one generated project through the real CLI and hand back the parsed output."""
import json
import os

from . import common, tsmod


class Gen:
    """result of one generation: .run (Run), .root (scratch root), .out (output dir), .output (tsmod.Output or None)"""

    def __init__(self, run, root, out):
        self.run, self.root, self.out = run, root, out
        self._output = None

    @property
    def output(self):
        if self._output is None:
            self._output = tsmod.Output(self.out)
        return self._output

    def files(self):
        return sorted(os.listdir(self.out)) if os.path.isdir(self.out) else []

    def cleanup(self):
        common.rmtree(self.root)


def generate(cli, files, mode="none", config=None, hash_seed=None, viz=False, verbose=False, force=False,
             root=None, out_name="out", src_name="src", tag="p", timeout=60):
    """files: list of (relative path under src, text). config: dict of extra settings (type_mappings,
    default_parameter_case, default_field_case ...) -> written to a standalone config file passed with -c."""
    root = root or common.scratch(tag)
    src = os.path.join(root, src_name)
    if files is not None:
        common.write_tree(src, files)
    out = os.path.join(root, out_name)
    cfgpath = None
    if config:
        cfg = {"project_path": src, "output_path": out, "validation_library": mode}
        cfg.update(config)
        cfgpath = os.path.join(root, "typegen.cfg.json")
        with open(cfgpath, "w") as f:
            json.dump(cfg, f)
    r = common.cli_generate(cli, project=src, out=out, mode=mode, config=cfgpath, hash_seed=hash_seed, viz=viz,
                            verbose=verbose, force=force, cwd=root, timeout=timeout)
    return Gen(r, root, out)


def witness_of(files, mode, config=None, extra=None):
    w = {"files": [[p, t] for p, t in files], "mode": mode, "config": config}
    if extra:
        w.update(extra)
    return w


def write_tauri_conf(root, src_rel="src-tauri", out_rel="gen", mode="none", extra=None, other=None):
    """tauri.conf.json with a plugins.typegen section (camelCase keys) in the project root"""
    tg = {"projectPath": src_rel, "outputPath": out_rel, "validationLibrary": mode}
    if extra:
        tg.update(extra)
    doc = {"productName": "app", "version": "0.1.0", "plugins": {"typegen": tg}}
    if other:
        doc.update(other)
    with open(os.path.join(root, "tauri.conf.json"), "w") as f:
        json.dump(doc, f, indent=2)


def build_generate(drv, root, hash_seed=None, timeout=60, traced=False):
    """the build-script path: BuildSystem::generate_at_build_time() through the driver, cwd = project root"""
    if traced:
        from . import fsmon
        return fsmon.run_traced([drv, "build"], cwd=root, hash_seed=hash_seed, timeout=timeout)
    return common.run([drv, "build"], cwd=root, hash_seed=hash_seed, timeout=timeout), None
