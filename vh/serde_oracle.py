"""Real-serde reference: a per-run generated crate (serde_derive + serde_json + heck from the offline registry)
that serialises sample values / derived types and prints the JSON, so that
 (i)  the reference model M is re-validated on every run (C05, C10),
 (ii) wire names of fields and variants come from serde_derive itself (C06, C04),
 (iii) argument keys come from heck, the crate tauri-macros uses (C04)."""
import json
import os
import shutil
import subprocess

from . import common, rustgen as rg

CRATE = os.path.join(common.TARGET, "oracle_crate")
TDIR = os.path.join(common.TARGET, "oracle")


def _prepare():
    os.makedirs(os.path.join(CRATE, "src", "bin"), exist_ok=True)
    src = os.path.join(common.VERIF, "oracle")
    common._write_if_changed(os.path.join(CRATE, "Cargo.toml"), open(os.path.join(src, "Cargo.toml")).read())
    common._write_if_changed(os.path.join(CRATE, "src", "bin", "heckbin.rs"), open(os.path.join(src, "src", "bin", "heckbin.rs")).read())
    if not os.path.exists(os.path.join(CRATE, "src", "bin", "serdebin.rs")):
        shutil.copy(os.path.join(src, "src", "bin", "serdebin.rs"), os.path.join(CRATE, "src", "bin", "serdebin.rs"))


def _build(bin_name):
    cmd = ["cargo", "build", "--offline", "--manifest-path", os.path.join(CRATE, "Cargo.toml"), "--target-dir", TDIR, "--bin", bin_name]
    p = subprocess.run(cmd, env=common.CARGO_ENV, capture_output=True, text=True)
    if p.returncode != 0:
        raise common.Inconclusive("oracle crate (%s) failed to build:\n%s" % (bin_name, p.stderr[-3000:]))
    return os.path.join(TDIR, "debug", bin_name)


def heck_table(names):
    """-> {name: {"camelCase":..,"snake_case":..,"PascalCase":..,"kebab-case":..,"SCREAMING_SNAKE_CASE":..,"SCREAMING-KEBAB-CASE":..}}"""
    _prepare()
    b = _build("heckbin")
    p = subprocess.run([b], input="\n".join(names) + "\n", capture_output=True, text=True)
    if p.returncode != 0:
        raise common.Inconclusive("heck oracle failed: " + p.stderr[-500:])
    res = {}
    for line in p.stdout.splitlines():
        f = line.split("\t")
        res[f[0]] = {"camelCase": f[1], "snake_case": f[2], "PascalCase": f[3], "kebab-case": f[4],
                     "SCREAMING_SNAKE_CASE": f[5], "SCREAMING-KEBAB-CASE": f[6]}
    return res


def run_serde(main_rs, name="serdebin"):
    """compile + run a generated program against real serde; returns stdout"""
    _prepare()
    common._write_if_changed(os.path.join(CRATE, "src", "bin", "serdebin.rs"), main_rs)
    b = _build("serdebin")
    p = subprocess.run([b], capture_output=True, text=True)
    if p.returncode != 0:
        raise common.Inconclusive("serde oracle program failed: " + p.stderr[-800:])
    return p.stdout


# ---------------------------------------------------------------- validation of M
def hashable(t):
    k = t[0]
    if k == "prim":
        return t[1] not in rg.FLOATS
    if k in ("unit", "named"):
        return True
    if k in ("opt", "vec", "bset"):
        return hashable(t[1])
    if k == "bmap":
        return hashable(t[1]) and hashable(t[2])
    if k == "tuple":
        return all(hashable(x) for x in t[1])
    return False


def json_key_ok(t):
    """serde_json accepts only strings, integers and bools (and newtype/Option thereof) as map keys"""
    return t[0] == "prim" and t[1] not in rg.FLOATS


def compilable(t):
    k = t[0]
    if k in ("prim", "unit", "named"):
        return True
    if k in ("ref", "res", "res1"):
        return False
    if k in ("hset", "bset"):
        return hashable(t[1]) and compilable(t[1])
    if k in ("hmap", "bmap"):
        return json_key_ok(t[1]) and compilable(t[2])
    if k == "tuple":
        return all(compilable(x) for x in t[1])
    return compilable(t[1])


SAMPLE_PRELUDE = r'''
#![allow(dead_code, unused_imports)]
use serde::{Serialize, Deserialize};
use std::collections::{HashMap, HashSet, BTreeMap, BTreeSet};
#[derive(Debug, Clone, Serialize, Deserialize, PartialEq, Eq, Hash, PartialOrd, Ord)]
pub struct Named { pub a: i32 }
trait Sample { fn sample(v: u32) -> Self; }
impl Sample for String { fn sample(v: u32) -> Self { if v == 0 { String::new() } else { "x\"y".to_string() } } }
impl Sample for bool { fn sample(v: u32) -> Self { v != 0 } }
impl Sample for () { fn sample(_: u32) -> Self { } }
impl Sample for Named { fn sample(v: u32) -> Self { Named { a: v as i32 } } }
macro_rules! num { ($($t:ty),*) => { $(impl Sample for $t { fn sample(v: u32) -> Self { (v as u8 % 100) as $t } })* } }
num!(i8, i16, i32, i64, i128, isize, u8, u16, u32, u64, u128, usize, f32, f64);
impl<T: Sample> Sample for Option<T> { fn sample(v: u32) -> Self { if v == 0 { None } else { Some(T::sample(v)) } } }
impl<T: Sample> Sample for Vec<T> { fn sample(v: u32) -> Self { if v == 0 { vec![] } else { vec![T::sample(v), T::sample(0)] } } }
impl<T: Sample + std::hash::Hash + Eq> Sample for HashSet<T> { fn sample(v: u32) -> Self { let mut s = HashSet::new(); if v != 0 { s.insert(T::sample(v)); } s } }
impl<T: Sample + Ord> Sample for BTreeSet<T> { fn sample(v: u32) -> Self { let mut s = BTreeSet::new(); if v != 0 { s.insert(T::sample(v)); } s } }
impl<K: Sample + std::hash::Hash + Eq, V: Sample> Sample for HashMap<K, V> { fn sample(v: u32) -> Self { let mut s = HashMap::new(); if v != 0 { s.insert(K::sample(v), V::sample(v)); } s } }
impl<K: Sample + Ord, V: Sample> Sample for BTreeMap<K, V> { fn sample(v: u32) -> Self { let mut s = BTreeMap::new(); if v != 0 { s.insert(K::sample(v), V::sample(v)); } s } }
impl<A: Sample> Sample for (A,) { fn sample(v: u32) -> Self { (A::sample(v),) } }
impl<A: Sample, B: Sample> Sample for (A, B) { fn sample(v: u32) -> Self { (A::sample(v), B::sample(v)) } }
impl<A: Sample, B: Sample, C: Sample> Sample for (A, B, C) { fn sample(v: u32) -> Self { (A::sample(v), B::sample(v), C::sample(v)) } }
impl<A: Sample, B: Sample, C: Sample, D: Sample> Sample for (A, B, C, D) { fn sample(v: u32) -> Self { (A::sample(v), B::sample(v), C::sample(v), D::sample(v)) } }
fn show<T: Sample + Serialize>(idx: usize) {
    for v in 0..3u32 { match serde_json::to_string(&T::sample(v)) { Ok(s) => println!("{}\t{}\t{}", idx, v, s), Err(e) => println!("{}\t{}\tERR {}", idx, v, e) } }
}
'''


def inhabits(j, s, named=None):
    """does JSON value j inhabit Shape s? (unit -> null admitted for void)"""
    k = s[0]
    if k == "str":
        return isinstance(j, str)
    if k == "num":
        return isinstance(j, (int, float)) and not isinstance(j, bool)
    if k == "bool":
        return isinstance(j, bool)
    if k in ("void", "null"):
        return j is None
    if k == "arr":
        return isinstance(j, list) and all(inhabits(x, s[1], named) for x in j)
    if k == "tuple":
        return isinstance(j, list) and len(j) == len(s[1]) and all(inhabits(x, y, named) for x, y in zip(j, s[1]))
    if k == "rec":
        if not isinstance(j, dict):
            return False
        for kk, vv in j.items():
            ks = s[1]
            if ks == ("num",):
                try:
                    float(kk)
                except ValueError:
                    return False
            elif ks == ("bool",) and kk not in ("true", "false"):
                return False
            if not inhabits(vv, s[2], named):
                return False
        return True
    if k == "union":
        return any(inhabits(j, x, named) for x in s[1])
    if k == "lit":
        return j == s[1]
    if k == "ref":
        if named and s[1] in named:
            return inhabits(j, named[s[1]], named)
        return isinstance(j, dict)
    if k == "obj":
        if not isinstance(j, dict):
            return False
        for (key, sub, opt) in s[1]:
            if key not in j:
                if not opt:
                    return False
            elif not inhabits(j[key], sub, named):
                return False
        return True
    if k in ("unknown", "any"):
        return True
    return False


def validate_M(types, rnd, n):
    cands = []
    seen = set()
    for t in types:
        t2 = rg.strip_refs(t)
        if compilable(t2) and rg.named_in(t2) <= {"Named"}:
            r = rg.rust(t2)
            if r not in seen:
                seen.add(r)
                cands.append(t2)
    rnd.shuffle(cands)
    sample = cands[:n]
    body = [SAMPLE_PRELUDE, "fn main() {\n"]
    for i, t in enumerate(sample):
        body.append("    show::<%s>(%d);\n" % (rg.rust(t), i))
    body.append("}\n")
    out = run_serde("".join(body))
    named = {"Named": ("obj", (("a", ("num",), False),))}
    dis = []
    checked = 0
    for line in out.splitlines():
        idx, v, js = line.split("\t", 2)
        t = sample[int(idx)]
        if js.startswith("ERR"):
            continue
        checked += 1
        val = json.loads(js)
        if not inhabits(val, rg.M(t), named):
            dis.append({"type": rg.rust(t), "json": js})
    return {"types_sampled": len(sample), "values_checked": checked, "disagreements": dis[:20],
            "disagreements_checked": checked,
            "examples": [{"type": rg.rust(sample[i]), "M": repr(rg.M(sample[i]))} for i in range(min(3, len(sample)))]}
