"""Rust-side workload generation: type-expression trees (with their rendering and their reference
denotation M per the README table), and small builders for source items."""
import itertools
import random

# ------------------------------------------------------------------------------------------- type trees
# ("prim", "String") ("named","Foo") ("unit",) ("ref",T) ("opt",T) ("vec",T) ("hset",T) ("bset",T)
# ("hmap",K,V) ("bmap",K,V) ("tuple",[T..]) ("res",T,E) ("res1",T)
INTS = ["i8", "i16", "i32", "i64", "i128", "isize", "u8", "u16", "u32", "u64", "u128", "usize"]
FLOATS = ["f32", "f64"]
PRIM_SPELLINGS = ["String", "&str"] + INTS + FLOATS + ["bool", "()"]


def P(name):
    if name == "()":
        return ("unit",)
    if name == "&str":
        return ("ref", ("prim", "str"))
    return ("prim", name)


def N(name):
    return ("named", name)


def rust(t):
    k = t[0]
    if k == "raw":          # literal Rust type text (only for probes that need no reference denotation: C01, C02)
        return t[1]
    if k == "prim":
        return t[1]
    if k == "named":
        return t[1]
    if k == "unit":
        return "()"
    if k == "ref":
        return "&" + rust(t[1])
    if k == "opt":
        return "Option<%s>" % rust(t[1])
    if k == "vec":
        return "Vec<%s>" % rust(t[1])
    if k == "hset":
        return "HashSet<%s>" % rust(t[1])
    if k == "bset":
        return "BTreeSet<%s>" % rust(t[1])
    if k == "hmap":
        return "HashMap<%s, %s>" % (rust(t[1]), rust(t[2]))
    if k == "bmap":
        return "BTreeMap<%s, %s>" % (rust(t[1]), rust(t[2]))
    if k == "tuple":
        return "(%s)" % ", ".join(rust(x) for x in t[1]) if len(t[1]) != 1 else "(%s,)" % rust(t[1][0])
    if k == "res":
        return "Result<%s, %s>" % (rust(t[1]), rust(t[2]))
    if k == "res1":
        return "Result<%s>" % rust(t[1])
    if k == "array":        # [T; 3] — outside the C05 enumeration (the README table has no row for it); a constructor context for C07 / C09
        return "[%s; 3]" % rust(t[1])
    raise ValueError(t)


def skeleton(t):
    """constructor skeleton with leaves normalised — used for signatures"""
    k = t[0]
    if k == "raw":
        return "raw"
    if k in ("prim", "named", "unit"):
        return {"prim": "$", "named": "N", "unit": "()"}[k]
    if k == "ref":
        return "&" + skeleton(t[1])
    if k in ("opt", "vec", "hset", "bset", "res1"):
        return {"opt": "Option", "vec": "Vec", "hset": "HashSet", "bset": "BTreeSet", "res1": "Result"}[k] + "<" + skeleton(t[1]) + ">"
    if k in ("hmap", "bmap", "res"):
        return {"hmap": "HashMap", "bmap": "BTreeMap", "res": "Result"}[k] + "<" + skeleton(t[1]) + "," + skeleton(t[2]) + ">"
    if k == "tuple":
        return "(" + ",".join(skeleton(x) for x in t[1]) + ")"
    if k == "array":
        return "[" + skeleton(t[1]) + ";3]"
    raise ValueError(t)


def depth(t):
    k = t[0]
    if k in ("prim", "named", "unit", "raw"):
        return 0
    if k == "ref":
        return depth(t[1])
    if k == "tuple":
        return 1 + max(depth(x) for x in t[1])
    return 1 + max(depth(x) for x in t[1:])


def named_in(t, ok_only=False):
    """set of named types mentioned (ok_only: skip the error arm of Result)"""
    k = t[0]
    if k == "named":
        return {t[1]}
    if k in ("prim", "unit", "raw"):
        return set()
    if k == "tuple":
        s = set()
        for x in t[1]:
            s |= named_in(x, ok_only)
        return s
    if k == "res" and ok_only:
        return named_in(t[1], ok_only)
    s = set()
    for x in t[1:]:
        s |= named_in(x, ok_only)
    return s


# ------------------------------------------------------------------------------------------- reference denotation
# Shapes: ("str",) ("num",) ("bool",) ("void",) ("null",) ("arr",S) ("tuple",[S]) ("rec",K,V) ("union",(S..)) ("lit",v)
#         ("ref",name) ("unknown",) ("any",) ("undefined",) ("set",S) ("obj", ((key,S,optional),...)) ("optional",S) ("never",)
def norm_union(parts):
    flat = []
    for p in parts:
        if p[0] == "union":
            flat.extend(p[1])
        else:
            flat.append(p)
    uniq = []
    for p in flat:
        if p not in uniq:
            uniq.append(p)
    uniq.sort(key=repr)
    if len(uniq) == 1:
        return uniq[0]
    return ("union", tuple(uniq))


def M(t, result_transparent=True):
    """README table: the JSON shape serde produces for the Rust type (Result<T,E> as T alone)."""
    k = t[0]
    if k == "prim":
        n = t[1]
        if n in ("String", "str"):
            return ("str",)
        if n in INTS or n in FLOATS:
            return ("num",)
        if n == "bool":
            return ("bool",)
        raise ValueError(n)
    if k == "unit":
        return ("void",)
    if k == "named":
        return ("ref", t[1])
    if k == "ref":
        return M(t[1])
    if k == "opt":
        return norm_union([M(t[1]), ("null",)])
    if k in ("vec", "hset", "bset", "array"):
        return ("arr", M(t[1]))
    if k in ("hmap", "bmap"):
        return ("rec", M(t[1]), M(t[2]))
    if k == "tuple":
        return ("tuple", tuple(M(x) for x in t[1]))
    if k in ("res", "res1"):
        return M(t[1])
    raise ValueError(t)


# ------------------------------------------------------------------------------------------- enumeration
LEAVES = [P("String"), P("&str"), P("i32"), P("f64"), P("bool"), P("()"), N("Named")]
FILL = P("String")
FILL2 = P("u8")


def slots():
    """constructor slots: functions inner -> type (other argument slots filled by a fixed leaf)"""
    s = [
        ("Option", lambda x: ("opt", x)),
        ("Vec", lambda x: ("vec", x)),
        ("HashSet", lambda x: ("hset", x)),
        ("BTreeSet", lambda x: ("bset", x)),
        ("HashMap.k", lambda x: ("hmap", x, FILL2)),
        ("HashMap.v", lambda x: ("hmap", FILL, x)),
        ("BTreeMap.k", lambda x: ("bmap", x, FILL2)),
        ("BTreeMap.v", lambda x: ("bmap", FILL, x)),
        ("tuple1", lambda x: ("tuple", [x])),            # (T,) — a one-element tuple is a one-element array on the wire
        ("tuple2.0", lambda x: ("tuple", [x, FILL2])),
        ("tuple2.1", lambda x: ("tuple", [FILL, x])),
        ("tuple3.1", lambda x: ("tuple", [FILL, x, FILL2])),
        ("tuple3.2", lambda x: ("tuple", [FILL, FILL2, x])),
        ("tuple4.0", lambda x: ("tuple", [x, FILL, FILL2, P("bool")])),
        ("tuple4.3", lambda x: ("tuple", [FILL, FILL2, P("bool"), x])),
        ("Result.ok", lambda x: ("res", x, P("String"))),
        ("Result.err", lambda x: ("res", FILL, x)),
        ("Result1", lambda x: ("res1", x)),
        ("&", lambda x: ("ref", x)),
    ]
    return s


def chains(maxdepth, leaves=None):
    """all type expressions built as chains of <= maxdepth constructor slots over the leaf representatives"""
    leaves = leaves or LEAVES
    sl = slots()
    out = []
    seen = set()
    for d in range(0, maxdepth + 1):
        for combo in itertools.product(sl, repeat=d):
            for leaf in leaves:
                t = leaf
                for (_, f) in reversed(combo):
                    t = f(t)
                if not valid_type(t):
                    continue
                r = rust(t)
                if r in seen:
                    continue
                seen.add(r)
                out.append(t)
    return out


def valid_type(t):
    """exclude spellings that are not Rust the documented feature set covers: & of &, && etc. stay legal Rust,
    but a reference directly under another reference adds nothing; a bare `str` only under &."""
    k = t[0]
    if k == "ref" and t[1][0] == "ref":
        return False
    if k == "prim" and t[1] == "str":
        return False
    if k == "ref":
        return t[1] == ("prim", "str") or valid_type(t[1])
    if k in ("prim", "named", "unit"):
        return True
    if k == "tuple":
        return all(valid_type(x) for x in t[1])
    return all(valid_type(x) for x in t[1:])


def random_type(rnd, maxdepth, named=("Named",), allow_result=True, allow_ref=True):
    if maxdepth <= 0 or rnd.random() < 0.15:
        leaf = rnd.choice(PRIM_SPELLINGS + list(named) * 3)
        return N(leaf) if leaf in named else P(leaf)
    ctor = rnd.choice(["opt", "vec", "hset", "bset", "hmap", "bmap", "tuple"] + (["res", "res1"] if allow_result else []) + (["ref"] if allow_ref else []))
    sub = lambda: random_type(rnd, maxdepth - 1, named, allow_result, allow_ref)
    if ctor in ("opt", "vec", "hset", "bset", "res1"):
        return (ctor, sub())
    if ctor == "ref":
        x = sub()
        return x if x[0] == "ref" else ("ref", x)
    if ctor in ("hmap", "bmap"):
        return (ctor, sub(), sub())
    if ctor == "res":
        return ("res", sub(), P("String"))
    return ("tuple", [sub() for _ in range(rnd.choice([1, 2, 2, 3, 3, 4]))])


def strip_refs(t):
    """references cannot appear in struct fields without lifetimes; used for field / serde-oracle sites"""
    k = t[0]
    if k == "ref":
        inner = strip_refs(t[1])
        return ("prim", "String") if inner == ("prim", "str") else inner
    if k in ("prim", "named", "unit"):
        return t
    if k == "tuple":
        return ("tuple", [strip_refs(x) for x in t[1]])
    return (k,) + tuple(strip_refs(x) for x in t[1:])


def has_ref(t):
    k = t[0]
    if k == "ref":
        return True
    if k in ("prim", "named", "unit"):
        return False
    if k == "tuple":
        return any(has_ref(x) for x in t[1])
    return any(has_ref(x) for x in t[1:])


# ------------------------------------------------------------------------------------------- source builders
PRELUDE = "use serde::{Deserialize, Serialize};\nuse std::collections::{HashMap, HashSet, BTreeMap, BTreeSet};\n\n"


# ---- path-qualified spellings of the same types (a Rust path names the same type however it is qualified)
STD_PATHS = {"Vec": "std::vec::Vec", "Option": "std::option::Option", "Result": "std::result::Result", "HashMap": "std::collections::HashMap",
             "BTreeMap": "std::collections::BTreeMap", "HashSet": "std::collections::HashSet", "BTreeSet": "std::collections::BTreeSet",
             "String": "std::string::String"}
SPELLINGS = ("std", "project", "both")
# module paths in front of a project type: a path names the type by its last segment, whatever the segments before it look like
PROJECT_PREFIXES = ("crate::", "self::", "crate::app_models::", "super::ui_state::v2::", "crate::db_2::", "self::__internal::")


def qualify(text, spelling, project_names=()):
    """Rust type text with std containers / String written through their std paths ("std"), project types written as
    crate::Name / self::Name ("project"), or both. None leaves the text alone."""
    import re
    if not spelling:
        return text
    if spelling in ("std", "both"):
        text = re.sub(r"(?<![A-Za-z0-9_:])(Vec|Option|Result|HashMap|BTreeMap|HashSet|BTreeSet)(?=<)", lambda m: STD_PATHS[m.group(1)], text)
        text = re.sub(r"(?<![A-Za-z0-9_:])String(?![A-Za-z0-9_])", STD_PATHS["String"], text)
    if spelling in ("project", "both"):
        for k, nm in enumerate(sorted(project_names, key=len, reverse=True)):
            text = re.sub(r"(?<![A-Za-z0-9_:])%s(?![A-Za-z0-9_])" % re.escape(nm), PROJECT_PREFIXES[k % len(PROJECT_PREFIXES)] + nm, text)
    return text


DERIVE_STYLES = ("single", "split-serde-last", "split-serde-first", "serde-only-then-others", "three-attrs", "cfg-attr-between")


def derive_lines(derives, style="single"):
    """the same set of derives laid out in different (equivalent) ways"""
    if not derives:
        return ["#[derive(Debug, Clone)]"] if style == "single" else ["#[derive(Debug)]", "#[derive(Clone)]"]
    if style == "split-serde-last":
        return ["#[derive(Debug, Clone)]", "#[derive(%s)]" % derives]
    if style == "split-serde-first":
        return ["#[derive(%s)]" % derives, "#[derive(Debug, Clone)]"]
    if style == "serde-only-then-others":
        return ["#[derive(%s)]" % derives, "#[allow(dead_code)]", "#[derive(Debug)]", "#[derive(Clone)]"]
    if style == "three-attrs":
        return ["#[derive(Debug)]", "#[derive(Clone, PartialEq)]", "#[derive(%s)]" % derives]
    if style == "cfg-attr-between":
        return ["#[derive(Debug, Clone)]", "#[allow(non_snake_case)]", "#[derive(%s)]" % derives]
    return ["#[derive(Debug, Clone, %s)]" % derives]


def struct_src(name, fields, rename_all=None, derives="Serialize, Deserialize", attrs=(), pub=True, derive_style="single"):
    """fields: list of (name, rust_type_string, [attr strings])"""
    out = []
    out.extend(derive_lines(derives, derive_style))
    if rename_all:
        out.append('#[serde(rename_all = "%s")]' % rename_all)
    for a in attrs:
        out.append(a)
    if fields is None:
        out.append("pub struct %s;" % name)
        return "\n".join(out) + "\n\n"
    out.append("%sstruct %s {" % ("pub " if pub else "", name))
    for f in fields:
        fname, fty = f[0], f[1]
        fattrs = f[2] if len(f) > 2 else []
        for a in fattrs:
            out.append("    " + a)
        if fname.startswith("priv:"):
            out.append("    %s: %s," % (fname[5:], fty))          # private field
        elif fname.startswith("crate:"):
            out.append("    pub(crate) %s: %s," % (fname[6:], fty))
        else:
            out.append("    pub %s: %s," % (fname, fty))
    out.append("}")
    return "\n".join(out) + "\n\n"


def enum_src(name, variants, rename_all=None, derives="Serialize, Deserialize", attrs=(), derive_style="single"):
    """variants: list of (name, [attr strings])"""
    out = derive_lines(derives, derive_style)
    if rename_all:
        out.append('#[serde(rename_all = "%s")]' % rename_all)
    for a in attrs:
        out.append(a)
    out.append("pub enum %s {" % name)
    for v in variants:
        vname = v[0]
        for a in (v[1] if len(v) > 1 else []):
            out.append("    " + a)
        out.append("    %s," % vname)
    out.append("}")
    return "\n".join(out) + "\n\n"


def command_src(name, params, ret=None, is_async=False, attr="#[tauri::command]", vis="pub ", body=None, pre_attrs=(), post_attrs=(), doc=None, generics="", where=""):
    """params: list of (name, rust_type_string)"""
    out = []
    if doc:
        out.append("/// " + doc)
    for a in pre_attrs:
        out.append(a)
    out.append(attr)
    for a in post_attrs:
        out.append(a)
    sig = "%s%sfn %s%s(%s)" % (vis, "async " if is_async else "", name, generics, ", ".join("%s: %s" % p for p in params))
    if ret:
        sig += " -> " + ret
    if where:
        sig += "\nwhere\n    " + where + ","
    out.append(sig + ("\n{" if where else " {"))
    out.append("    " + (body if body is not None else "todo!()"))
    out.append("}")
    return "\n".join(out) + "\n\n"


def snake_to_camel(s):
    """plain reference used only for *benign* names (single-underscore separated lowercase words)"""
    parts = s.split("_")
    return parts[0] + "".join(p[:1].upper() + p[1:] for p in parts[1:])


def snake_to_pascal(s):
    return "".join(p[:1].upper() + p[1:] for p in s.split("_"))
