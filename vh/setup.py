import sys
from . import common

def main():
    try:
        print("cli:", common.build_cli())
        print("driver:", common.build_driver())
        print("driver(release):", common.build_driver(release=True))
    except common.Inconclusive as e:
        print("setup failed:", e)
        return 1
    try:
        from . import selftest
        return selftest.main()
    except ImportError:
        return 0

if __name__ == "__main__":
    sys.exit(main())
