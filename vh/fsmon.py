"""Filesystem monitors: recursive snapshots + strace log of write-class syscalls (monitor F)."""
import hashlib
import os
import re
import shutil
import stat
import subprocess

from . import common

STRACE = shutil.which("strace")
TRACE = ("openat,open,creat,unlink,unlinkat,rename,renameat,renameat2,mkdir,mkdirat,rmdir,link,linkat,symlink,symlinkat,"
         "truncate,ftruncate,chmod,fchmodat,utimensat,chdir")


def snapshot(root):
    """{relative path: (type, size, sha256, mtime_ns, inode, link target)}"""
    snap = {}
    for d, dirs, files in os.walk(root, followlinks=False):
        for name in dirs + files:
            p = os.path.join(d, name)
            rel = os.path.relpath(p, root)
            try:
                st = os.lstat(p)
            except OSError:
                continue
            if stat.S_ISLNK(st.st_mode):
                snap[rel] = ("link", 0, "", st.st_mtime_ns, st.st_ino, os.readlink(p))
            elif stat.S_ISDIR(st.st_mode):
                snap[rel] = ("dir", 0, "", st.st_mtime_ns, st.st_ino, "")
            else:
                try:
                    h = hashlib.sha256(open(p, "rb").read()).hexdigest()
                except OSError:
                    h = "?"
                snap[rel] = ("file", st.st_size, h, st.st_mtime_ns, st.st_ino, "")
    return snap


def diff(a, b, ignore_dir_mtime=True):
    """-> dict(created, deleted, modified (content), touched (same content, other mtime/inode))"""
    res = {"created": [], "deleted": [], "modified": [], "touched": []}
    for p in sorted(set(a) | set(b)):
        if p not in a:
            res["created"].append(p)
        elif p not in b:
            res["deleted"].append(p)
        else:
            x, y = a[p], b[p]
            if x[0] != y[0] or x[2] != y[2] or x[5] != y[5] or x[1] != y[1]:
                res["modified"].append(p)
            elif x[0] == "dir":
                if not ignore_dir_mtime and x[3] != y[3]:
                    res["touched"].append(p)
            elif x[3] != y[3] or x[4] != y[4]:
                res["touched"].append(p)
    return res


LINE = re.compile(r"^(?:(\d+)\s+)?(\w+)\((.*)\)\s*=\s*(-?\d+|\?)(.*)$")
STR = re.compile(r'"((?:[^"\\]|\\.)*)"')


def run_traced(argv, cwd=None, hash_seed=None, timeout=120, inject=None, inject_path=None):
    """run under strace; returns (Run, events). events: list of dict(call, path, path2, flags, ret, mutating, injected)
    inject: e.g. 'openat:error=EACCES' restricted to inject_path via -P"""
    if STRACE is None:
        return common.run(argv, cwd=cwd, hash_seed=hash_seed, timeout=timeout), None
    log = os.path.join(common.scratch("strace"), "log")
    cmd = [STRACE, "-f", "-qq", "-o", log]
    if inject:
        # -P restricts tracing (and therefore injection) to syscalls touching that path
        cmd += ["-P", inject_path, "-e", "trace=openat,open,creat,write,unlink,unlinkat,rename,renameat,renameat2", "-e", "inject=" + inject]
    else:
        cmd += ["-e", "trace=" + TRACE]
    r = common.run(cmd + argv, cwd=cwd, hash_seed=hash_seed, timeout=timeout)
    events = parse_log(log, cwd or os.getcwd())
    common.rmtree(os.path.dirname(log))
    return r, events


def _unescape(s):
    try:
        return bytes(s, "latin-1").decode("unicode_escape").encode("latin-1").decode("utf-8", "replace")
    except Exception:
        return s


def parse_log(log, cwd):
    events = []
    cwds = {}
    try:
        lines = open(log, errors="replace").read().splitlines()
    except OSError:
        return events
    for ln in lines:
        m = LINE.match(ln)
        if not m:
            continue
        pid, call, args, ret, tail = m.groups()
        paths = [_unescape(x) for x in STR.findall(args)]
        base = cwds.get(pid, cwd)
        if call == "chdir" and paths and ret == "0":
            cwds[pid] = os.path.normpath(os.path.join(base, paths[0]))
            continue
        ap = [os.path.normpath(os.path.join(base, p)) for p in paths]
        flags = ""
        mut = False
        if call in ("openat", "open", "creat"):
            fm = re.search(r"(O_[A-Z_|]+)", args)
            flags = fm.group(1) if fm else ""
            mut = call == "creat" or any(f in flags for f in ("O_WRONLY", "O_RDWR", "O_CREAT", "O_TRUNC", "O_APPEND"))
        elif call in ("unlink", "unlinkat", "rename", "renameat", "renameat2", "mkdir", "mkdirat", "rmdir", "link", "linkat", "symlink", "symlinkat",
                      "truncate", "chmod", "fchmodat", "utimensat", "write"):
            mut = True
        events.append({"call": call, "path": ap[0] if ap else None, "path2": ap[1] if len(ap) > 1 else None, "flags": flags,
                       "ret": ret, "ok": not ret.startswith("-"), "mutating": mut, "injected": "(INJECTED)" in tail, "raw": ln[:200]})
    return events


def mutating_on(events, root):
    """mutating, successful-or-attempted calls whose target lies under root"""
    root = os.path.normpath(root)
    res = []
    for e in events or []:
        if not e["mutating"]:
            continue
        for p in (e["path"], e["path2"]):
            if p and (p == root or p.startswith(root + os.sep)):
                res.append(e)
                break
    return res
