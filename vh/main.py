import importlib
import os
import sys
import traceback

from . import common


def main(argv):
    if not argv:
        print("usage: check <Cxx> [--tier quick|thorough] | check replay <witness-dir>")
        return 2
    tier = os.environ.get("VERIF_TIER", "quick")
    if "--tier" in argv:
        i = argv.index("--tier")
        tier = argv[i + 1]
        del argv[i:i + 2]
    if argv[0] == "replay":
        from . import replay
        return replay.main(argv[1:])
    pid = argv[0].upper()
    try:
        mod = importlib.import_module("vh.checks.%s" % pid.lower())
    except ImportError as e:
        print("INCONCLUSIVE property=%s no such check (%s)" % (pid, e))
        return 2
    try:
        return mod.run(tier)
    except common.Inconclusive as e:
        print("INCONCLUSIVE property=%s %s" % (pid, e))
        return 2
    except Exception:
        traceback.print_exc()
        print("INCONCLUSIVE property=%s harness error (not a verdict about the code)" % pid)
        return 2


if __name__ == "__main__":
    sys.exit(main(sys.argv[1:]))
