"""Mini-Zod: an interpreter for the combinators the generator can emit, over JSON-like Python values.
Semantics follow Zod 4's documentation for the documented core:
 - z.object strips unknown keys; a missing key is `undefined` for its schema
 - .optional() admits undefined only; .nullable() admits null; .nullish() both
 - z.set requires a JS Set (a JSON array is rejected); z.tuple requires exact length
 - z.coerce.number(): Number(v), NaN rejected; z.coerce.boolean(): Boolean(v)
 - refinements (.min/.max/.email/.url ...) are NOT structural and are ignored here (C11 owns them)
Answers: accepted? and is the parsed output JSON-serialisable?"""

UNDEF = ("__undefined__",)


class ZodEvalError(Exception):
    pass


class Result:
    def __init__(self, ok, out=None, why=""):
        self.ok, self.out, self.why = ok, out, why


def _path(e):
    parts = []
    while e[0] == "member":
        parts.append(e[2])
        e = e[1]
    if e[0] == "id":
        parts.append(e[1])
        return list(reversed(parts))
    return None


def js_number(v):
    if v is UNDEF:
        return None
    if v is None:
        return 0.0
    if isinstance(v, bool):
        return 1.0 if v else 0.0
    if isinstance(v, (int, float)):
        return float(v)
    if isinstance(v, str):
        s = v.strip()
        if s == "":
            return 0.0
        try:
            return float(s)
        except ValueError:
            return None
    if isinstance(v, list):
        if len(v) == 0:
            return 0.0
        if len(v) == 1:
            return js_number(v[0])
        return None
    return None


def zeval(e, v, env, path="$"):
    """e: parsed schema expression; v: value (UNDEF for missing); env: {const name: init expr}"""
    k = e[0]
    if k == "paren":
        return zeval(e[1], v, env, path)
    if k == "id":
        if e[1] in env:
            return zeval(env[e[1]], v, env, path)
        raise ZodEvalError("unknown schema identifier %s" % e[1])
    if k == "member":
        p = _path(e)
        if p and p[0] == "types" and p[1] in env:
            return zeval(env[p[1]], v, env, path)
        raise ZodEvalError("member expression is not a schema")
    if k != "call":
        raise ZodEvalError("not a schema expression: %s" % k)
    callee, args = e[1], e[2]
    p = _path(callee)
    if p and p[0] == "z":
        r = p[1:]
        if r == ["string"]:
            return Result(isinstance(v, str), v, "%s: expected string" % path)
        if r == ["number"]:
            return Result(isinstance(v, (int, float)) and not isinstance(v, bool), v, "%s: expected number" % path)
        if r == ["coerce", "number"]:
            n = js_number(v)
            return Result(n is not None, n, "%s: not coercible to a number" % path)
        if r == ["boolean"]:
            return Result(isinstance(v, bool), v, "%s: expected boolean" % path)
        if r == ["coerce", "boolean"]:
            return Result(True, bool(v) if v is not UNDEF else False)
        if r == ["coerce", "string"]:
            return Result(True, str(v))
        if r == ["void"]:
            return Result(v is UNDEF, v, "%s: z.void() admits undefined only" % path)
        if r == ["null"]:
            return Result(v is None, v, "%s: expected null" % path)
        if r == ["undefined"]:
            return Result(v is UNDEF, v, "%s: expected undefined" % path)
        if r in (["unknown"], ["any"]):
            return Result(True, v)
        if r == ["never"]:
            return Result(False, None, "%s: never" % path)
        if r == ["array"]:
            if not isinstance(v, list):
                return Result(False, None, "%s: expected array" % path)
            out = []
            for i, x in enumerate(v):
                rr = zeval(args[0], x, env, "%s[%d]" % (path, i))
                if not rr.ok:
                    return rr
                out.append(rr.out)
            return Result(True, out)
        if r == ["set"]:
            return Result(False, None, "%s: z.set() requires a JS Set, got %s" % (path, type(v).__name__))
        if r == ["record"]:
            if not isinstance(v, dict):
                return Result(False, None, "%s: expected object for record" % path)
            ks, vs = (args[0], args[1]) if len(args) == 2 else (None, args[0])
            out = {}
            for kk, vv in v.items():
                if ks is not None:
                    kp = _path(ks[1]) if ks[0] == "call" else None
                    if kp and kp[1:] in (["number"], ["coerce", "number"]):
                        if js_number(kk) is None:
                            return Result(False, None, "%s: key %r is not numeric" % (path, kk))
                    else:
                        kr = zeval(ks, kk, env, path + ".<key>")
                        if not kr.ok:
                            return kr
                rr = zeval(vs, vv, env, "%s.%s" % (path, kk))
                if not rr.ok:
                    return rr
                out[kk] = rr.out
            return Result(True, out)
        if r == ["tuple"]:
            items = args[0][1] if args and args[0][0] == "array" else None
            if items is None:
                raise ZodEvalError("z.tuple without array literal")
            if not isinstance(v, list) or len(v) != len(items):
                return Result(False, None, "%s: expected tuple of length %d" % (path, len(items)))
            out = []
            for i, (s, x) in enumerate(zip(items, v)):
                rr = zeval(s, x, env, "%s[%d]" % (path, i))
                if not rr.ok:
                    return rr
                out.append(rr.out)
            return Result(True, out)
        if r == ["enum"]:
            vals = [x[1] for x in args[0][1]] if args and args[0][0] == "array" else []
            return Result(isinstance(v, str) and v in vals, v, "%s: %r not in enum %s" % (path, v, vals))
        if r == ["literal"]:
            return Result(v == args[0][1], v, "%s: literal mismatch" % path)
        if r == ["union"]:
            why = []
            for s in args[0][1]:
                rr = zeval(s, v, env, path)
                if rr.ok:
                    return rr
                why.append(rr.why)
            return Result(False, None, "%s: no union member matched (%s)" % (path, "; ".join(why)[:200]))
        if r == ["object"]:
            if not isinstance(v, dict):
                return Result(False, None, "%s: expected object" % path)
            out = {}
            for pr in args[0][1]:
                if pr[0] != "prop":
                    raise ZodEvalError("z.object with non-plain property")
                key = pr[1]
                rr = zeval(pr[3], v.get(key, UNDEF), env, "%s.%s" % (path, key))
                if not rr.ok:
                    return rr
                if rr.out is not UNDEF:
                    out[key] = rr.out
            return Result(True, out)
        if r == ["custom"]:
            return Result(True, v)
        if r == ["lazy"]:
            body = args[0][2]
            return zeval(body, v, env, path)
        raise ZodEvalError("unknown constructor z.%s" % ".".join(r))
    if callee[0] == "member":
        recv, meth = callee[1], callee[2]
        if meth == "optional":
            if v is UNDEF:
                return Result(True, UNDEF)
            return zeval(recv, v, env, path)
        if meth == "nullable":
            if v is None:
                return Result(True, None)
            return zeval(recv, v, env, path)
        if meth == "nullish":
            if v is None or v is UNDEF:
                return Result(True, v)
            return zeval(recv, v, env, path)
        if meth == "or":
            rr = zeval(recv, v, env, path)
            if rr.ok:
                return rr
            return zeval(args[0], v, env, path)
        # refinements: structural pass-through
        return zeval(recv, v, env, path)
    raise ZodEvalError("call is not a schema")


def json_serialisable(out):
    if out is UNDEF:
        return True
    if out is None or isinstance(out, (bool, int, float, str)):
        return True
    if isinstance(out, list):
        return all(x is not UNDEF and json_serialisable(x) for x in out)
    if isinstance(out, dict):
        return all(json_serialisable(x) for x in out.values())
    return False
