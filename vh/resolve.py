"""Module-graph name resolver over parsed generated modules (monitor R for C02 / C09 / C18)."""
from . import tsmod

TYPE_BUILTINS = {"string", "number", "boolean", "void", "null", "undefined", "unknown", "any", "never", "object", "symbol", "bigint",
                 "Record", "Promise", "Array", "Partial", "Readonly", "Required", "Pick", "Omit", "Set", "Map", "Date", "Error",
                 "ReadonlyArray", "Exclude", "Extract", "NonNullable", "ReturnType", "Awaited", "this", "const"}
VALUE_BUILTINS = {"undefined", "Error", "Promise", "JSON", "console", "Object", "Array", "Math", "Symbol", "Set", "Map", "Date",
                  "Number", "String", "Boolean", "globalThis", "this", "NaN", "Infinity", "parseInt", "parseFloat", "isNaN"}


class ModInfo:
    def __init__(self, name, mod):
        self.name = name
        self.mod = mod
        self.type_decls = {}    # name -> [items]   (interfaces, type aliases)
        self.value_decls = {}   # name -> [items]   (consts, functions)
        self.imports = {}       # local name -> (module, original | '*' | 'default', type_only)
        self.exports_all = []
        for it in mod.items:
            k = it["kind"]
            if k in ("interface", "type"):
                self.type_decls.setdefault(it["name"], []).append(it)
            elif k in ("const", "function"):
                self.value_decls.setdefault(it["name"], []).append(it)
            elif k == "import":
                if it["default"]:
                    self.imports[it["default"]] = (it["from"], "default", it.get("type_only", False))
                if it["ns"]:
                    self.imports[it["ns"]] = (it["from"], "*", it.get("type_only", False))
                for (orig, local, ty) in it["names"]:
                    self.imports[local] = (it["from"], orig, ty or it.get("type_only", False))
            elif k == "export_all":
                self.exports_all.append(it["from"])

    def exported_types(self):
        return {n for n, its in self.type_decls.items() if any(i["exported"] for i in its)}

    def exported_values(self):
        return {n for n, its in self.value_decls.items() if any(i["exported"] for i in its)}

    def duplicates(self):
        d = []
        for space, decls in (("type", self.type_decls), ("value", self.value_decls)):
            for n, its in decls.items():
                if len(its) > 1:
                    d.append((space, n, len(its)))
                if n in self.imports:
                    # an import binding and a local declaration of one name: the module binds the name twice
                    d.append(("import+" + space, n, len(its) + 1))
        return d


def _type_refs(ty, out, tparams):
    """collect (kind, name) references from a type AST: kind 'type' or 'value' (typeof)"""
    if not isinstance(ty, tuple):
        return
    k = ty[0]
    if k == "ref":
        if ty[1] not in tparams:
            out.append(("type", ty[1]))
        for a in ty[2]:
            _type_refs(a, out, tparams)
    elif k == "typeof":
        out.append(("value", ty[1]))
    elif k in ("array", "paren", "keyof", "readonly", "unique"):
        _type_refs(ty[1], out, tparams)
    elif k in ("tuple", "union", "inter"):
        for x in ty[1]:
            _type_refs(x, out, tparams)
    elif k == "indexed":
        _type_refs(ty[1], out, tparams)
        _type_refs(ty[2], out, tparams)
    elif k == "object":
        for m in ty[1]:
            if m[0] == "prop":
                _type_refs(m[4], out, tparams)
            elif m[0] == "index":
                _type_refs(m[2], out, tparams)
                _type_refs(m[3], out, tparams)
            elif m[0] in ("method", "call"):
                params, ret = (m[2], m[3]) if m[0] == "method" else (m[1], m[2])
                for p in params:
                    _type_refs(p[2], out, tparams)
                _type_refs(ret, out, tparams)
    elif k == "func":
        for p in ty[1]:
            _type_refs(p[2], out, tparams)
        _type_refs(ty[2], out, tparams)


def _pattern_names(p):
    res = []
    if isinstance(p, tuple) and p and p[0] == "pattern":
        for n in p[1]:
            res.extend(_pattern_names(n) if isinstance(n, tuple) else [n])
    elif isinstance(p, str):
        res.append(p)
    return res


def _expr_refs(e, out, scope, tparams):
    """collect value/type references from expression / statement ASTs with lexical scoping"""
    if not isinstance(e, tuple) or not e:
        return
    k = e[0]
    if k == "id":
        if e[1] not in scope:
            out.append(("value", e[1]))
    elif k in ("str", "num", "bool", "null", "tmpl", "hole", "empty", "break", "continue"):
        return
    elif k == "member":
        _expr_refs(e[1], out, scope, tparams)
    elif k == "index":
        _expr_refs(e[1], out, scope, tparams)
        _expr_refs(e[2], out, scope, tparams)
    elif k == "call":
        _expr_refs(e[1], out, scope, tparams)
        for a in e[2]:
            _expr_refs(a, out, scope, tparams)
        for t in e[3]:
            _type_refs(t, out, tparams)
    elif k == "new":
        _expr_refs(e[1], out, scope, tparams)
        for a in e[2]:
            _expr_refs(a, out, scope, tparams)
    elif k == "object":
        for p in e[1]:
            if p[0] == "prop":
                _expr_refs(p[3], out, scope, tparams)
            elif p[0] == "shorthand":
                if p[1] not in scope:
                    out.append(("value", p[1]))
            elif p[0] == "spread":
                _expr_refs(p[1], out, scope, tparams)
            elif p[0] == "computed":
                _expr_refs(p[1], out, scope, tparams)
                _expr_refs(p[2], out, scope, tparams)
            elif p[0] == "method":
                inner = set(scope)
                for prm in p[2]:
                    inner.update(_pattern_names(prm[0]))
                _expr_refs(p[3], out, inner, tparams)
    elif k == "array":
        for x in e[1]:
            _expr_refs(x, out, scope, tparams)
    elif k == "arrow":
        inner = set(scope)
        for prm in e[1]:
            inner.update(_pattern_names(prm[0]))
            _type_refs(prm[2], out, tparams)
        _expr_refs(e[2], out, inner, tparams)
    elif k == "func":
        inner = set(scope)
        if e[1]:
            inner.add(e[1])
        for prm in e[2]:
            inner.update(_pattern_names(prm[0]))
        _expr_refs(e[3], out, inner, tparams)
    elif k in ("unary",):
        _expr_refs(e[2], out, scope, tparams)
    elif k in ("binary", "assign"):
        _expr_refs(e[2], out, scope, tparams)
        _expr_refs(e[3], out, scope, tparams)
    elif k == "cond":
        for x in e[1:]:
            _expr_refs(x, out, scope, tparams)
    elif k in ("await", "spread", "nonnull", "paren"):
        _expr_refs(e[1], out, scope, tparams)
    elif k == "as":
        _expr_refs(e[1], out, scope, tparams)
        _type_refs(e[2], out, tparams)
    elif k == "tagged":
        _expr_refs(e[1], out, scope, tparams)
    # statements
    elif k == "block":
        inner = set(scope)
        # hoist const/let/function names of this block
        for st in e[1]:
            if st and st[0] == "decl":
                for d in st[2]:
                    inner.update(_pattern_names(d[0]))
            elif st and st[0] == "funcdecl":
                inner.add(st[1])
        for st in e[1]:
            _expr_refs(st, out, inner, tparams)
    elif k == "decl":
        for d in e[2]:
            _type_refs(d[1], out, tparams)
            _expr_refs(d[2], out, scope, tparams)
    elif k in ("return", "throw", "expr"):
        _expr_refs(e[1], out, scope, tparams)
    elif k == "if":
        for x in e[1:]:
            _expr_refs(x, out, scope, tparams)
    elif k == "try":
        _expr_refs(e[1], out, scope, tparams)
        inner = set(scope)
        if e[2]:
            inner.add(e[2])
        _expr_refs(e[3], out, inner, tparams)
        _expr_refs(e[4], out, scope, tparams)
    elif k == "funcdecl":
        inner = set(scope)
        for prm in e[2]:
            inner.update(_pattern_names(prm[0]))
            _type_refs(prm[2], out, tparams)
        _type_refs(e[3], out, tparams)
        _expr_refs(e[4], out, inner, tparams)


def item_refs(it):
    """-> list of (kind, name) references made by one module item"""
    out = []
    k = it["kind"]
    tparams = {tp[0] for tp in it.get("tparams", [])} if it.get("tparams") else set()
    if k == "interface":
        for x in it["extends"]:
            _type_refs(x, out, tparams)
        _type_refs(("object", it["members"]), out, tparams)
    elif k == "type":
        _type_refs(it["type"], out, tparams)
    elif k == "const":
        _type_refs(it["type"], out, tparams)
        _expr_refs(it["init"], out, set(), tparams)
    elif k == "function":
        scope = set()
        for prm in it["params"]:
            scope.update(_pattern_names(prm[0]))
            _type_refs(prm[2], out, tparams)
        _type_refs(it["ret"], out, tparams)
        _expr_refs(it["body"], out, scope, tparams)
    elif k == "stmt":
        _expr_refs(it["stmt"], out, set(), tparams)
    return out


def unresolved(output):
    """-> list of (file, item name, kind, name, why) for every reference that resolves to nothing"""
    infos = {f: ModInfo(f, m) for f, m in output.mods.items()}
    res = []
    for f, info in infos.items():
        for it in info.mod.items:
            if it["kind"] in ("import", "export_all", "export_named", "export_default"):
                continue
            for (kind, name) in item_refs(it):
                parts = name.split(".")
                head = parts[0]
                local_types = set(info.type_decls)
                local_values = set(info.value_decls)
                if head in info.imports:
                    modname, orig, _ = info.imports[head]
                    if orig == "*" and modname.startswith("./") and len(parts) >= 2:
                        target = infos.get(modname[2:] + ".ts")
                        if target is None:
                            res.append((f, it.get("name"), kind, name, "namespace import of a module that was not generated"))
                            continue
                        member = parts[1]
                        ok = member in target.exported_types() if kind == "type" else (member in target.exported_values())
                        if kind == "type" and not ok and member in target.exported_values():
                            ok = False
                        if not ok:
                            res.append((f, it.get("name"), kind, name, "%s does not export %s %r" % (target.name, kind, member)))
                    continue
                if kind == "type":
                    if head in local_types or head in TYPE_BUILTINS:
                        continue
                    res.append((f, it.get("name"), kind, name, "no declaration, import or built-in type of that name"))
                else:
                    if head in local_values or head in VALUE_BUILTINS:
                        continue
                    res.append((f, it.get("name"), kind, name, "no declaration, import or global value of that name"))
    return res
