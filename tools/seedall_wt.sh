#!/bin/bash
# Same matrix as seedall.sh, but without touching /repo: each seeded patch is applied in the scratch worktree given as $1
# (checked out at /repo HEAD) and the quick check of its property is pointed at that worktree (VERIF_REPO). Used to re-validate
# the whole matrix while other checks run against /repo; the per-seed confirmation (seedtest.sh) is done on /repo itself.
# usage: seedall_wt.sh <worktree> [name-glob]
wt=$1; glob=${2:-*}
cd /verif
head=$(git -C /repo rev-parse HEAD)
for d in seeded/$glob/; do
  n=$(basename $d); id=${n%%_*}
  if grep -q '"retired"' $d/meta.json 2>/dev/null; then echo "$n: retired (see meta.json)"; continue; fi
  git -C $wt checkout -q -- . && git -C $wt checkout -q --detach $head
  if ! git -C $wt apply --check /verif/$d/patch.diff 2>/dev/null; then echo "$n: PATCH DOES NOT APPLY"; continue; fi
  git -C $wt apply /verif/$d/patch.diff
  VERIF_REPO=$wt VERIF_TARGET=$wt/target VERIF_EVIDENCE_DIR=/dev/shm/ev_$(basename $wt) ./check $id --tier quick > $d/final_check.log 2>&1; rc=$?
  git -C $wt checkout -q -- .
  echo "$n: check $id exit=$rc violations=$(grep -c '^VIOLATION' $d/final_check.log) first: $(grep -m1 'signature:' $d/final_check.log | cut -c1-120)"
done
