#!/usr/bin/env python3
"""Regenerates /verif/MANIFEST.json from the table below (kept in one place so it stays valid)."""
import json, os
V = os.path.dirname(os.path.dirname(os.path.abspath(__file__)))

TB = ("trusted base: the hand-written oracles in /verif/vh (TS/Zod parser, resolver, shape model, mini-Zod), "
      "real serde/serde_json/heck from the offline registry, strace, tmpfs readdir order, the getrandom LD_PRELOAD shim; "
      "everything beyond the stated exhaustive scope is seeded sampling")

CHECKS = {
 # id: (category, technique, text, design_ref)
 "C01": ("exploration", "runtime monitor: every file the real CLI writes is parsed by a strict hand-written TS/Zod parser with error recovery; user strings round-tripped through literal decoding",
         "held on everything observed: ~1 400 atomic probes (name class x position) x 2 modes plus all type-expression chains to depth 2 (quick) / 3 (thorough) at five sites; oracle self-tested on positive/negative corpora each run", "4 C01"),
 "C02": ("exploration", "runtime monitor: the four generated modules are parsed and every type/value reference is resolved by a module-graph resolver; duplicates and index.ts re-exports compared with the files the run wrote",
         "held on everything observed: custom struct/enum at 18-22 structural positions x 5 sites x 2 modes, event layouts (same event from several places, colliding identifiers, none), seeded compound projects; counter references_resolved says how many references were checked", "4 C02"),
 "C03": ("exploration", "runtime monitor: generated directory layouts with ground truth; wrappers identified by the decoded invoke literal and compared with the expected command set",
         "held on everything observed: 400 (quick) / 40 000 (thorough) layouts of 1-8 files at depth 0-4 with 7 attribute spellings, 4 visibilities, sync/async, 9 decoy kinds, target/ .git/ non-.rs and unparsable neighbours; evidence counts commands expected and decoys planted", "4 C03"),
 "C04": ("exploration", "runtime monitor: delivered key set computed symbolically from the parsed invoke call site and compared with heck (Tauri's renaming) / real serde rename_all",
         "held on everything observed: commands with 0-6 parameters mixing value, channel and 16 injected spellings, 24 snake_case name shapes, 8 default_parameter_case values, both modes; optionality iff Option; same key set in both modes", "4 C04"),
 "C05": ("exploration", "runtime monitor: real CLI on generated projects; every emitted type parsed by the TS/Zod oracle and compared with the reference denotation M (re-validated against real serde_json each run)",
         "held on everything observed: all chains of 18 constructor slots over 7 leaves to depth 2 (quick) / 3 (thorough) at the five sites in both modes, every primitive spelling, seeded deeper trees; mismatches equal to a recorded defect model are KNOWN-FINDINGs, anything else is a VIOLATION", "4 C05"),
 "C06": ("translation_validation", "runtime monitor: identical struct/enum definitions compiled against real serde_derive/serde_json (oracle crate) and fed to the real CLI; decoded keys/literals compared name by name",
         "per generated definition the emitted key/literal list equals what serde_json actually printed; 9 rename_all x 18 field-attribute variants x 13 identifier shapes (fields) and 6 variant-attribute variants x 10 shapes (variants); 1 oracle build in quick, 24 in thorough", "4 C06"),
 "C07": ("exploration", "runtime monitor: generated type-dependency graphs with ground-truth reachability; declared type set parsed from types.ts and compared",
         "held on everything observed: every edge context (18) x root kind (7) systematically plus 300 (quick) / 30 000 (thorough) random graphs of 2-10 types over 1-5 files with cycles, unreachable, non-serde and error-arm-only decoys, both modes", "4 C07"),
 "C08": ("exploration", "runtime monitor (differential over histories): edit / non-forced-run sequences against the real CLI and the real build-script entry point; after every successful run the output directory is compared with the tool's own forced generation of the current state",
         "held on everything observed: 37 edit classes; all length-1 histories on both paths and modes, all ordered length-2 histories on the CLI path, sampled length-2 on the build path and with skipped intermediate runs, sampled length 3 (thorough: length-2 exhaustive on both paths, 40 000 length-3, 1 500 of length 4-7); evidence counts cache hits actually observed", "4 C08"),
 "C09": ("exploration", "runtime monitor: Zod-mode runs of the real CLI over enumerated DAGs under replayable hash seeds; declaration-before-use scan over the parsed types.ts",
         "held on everything observed: all labelled DAGs on <=3 (quick) / <=4 (thorough) nodes x 6 uniform edge contexts x 8/32 hash seeds (incl. OS-entropy processes) plus sampled DAGs to 6 nodes with mixed contexts; evidence reports distinct schema orders observed", "4 C09"),
 "C10": ("exploration", "runtime monitor: each project generated in both modes by the real CLI; plain declarations and Zod schemas parsed into one shape model and diffed key by key; serde_json values replayed through a mini-Zod interpreter of the emitted parameter schemas",
         "held on everything observed: type chains exhaustive to depth 2 (quick) / 3 (thorough) at field and parameter sites plus seeded deeper trees; name sets equal; value-level acceptance on a real-serde sample; differences equal to a recorded defect model are KNOWN-FINDINGs", "4 C10"),
 "C11": ("exploration", "runtime monitor: generated validated structs with declared constraints as ground truth; method chains of the emitted field schemas parsed and compared as multisets of (method, decoded number, decoded message)",
         "held on everything observed: 350 (quick) / 40 000 (thorough) projects, ~3 300 / ~380 000 fields over length/range/email/url combinations, 10 field types, 27 bound spellings, messages over Unicode/quotes/backslashes/parentheses/keywords, one or several attributes", "4 C11"),
 "C12": ("exploration", "runtime monitor: generated emit placements / receivers / payload forms with ground truth; listeners parsed from events.ts (listen literal, identifier, payload type) and compared",
         "held on everything observed: every placement (18), documented receiver form (8) and payload form (33) systematically in both modes plus 300 (quick) / 30 000 (thorough) random projects with 1-5 events emitted from 1-3 functions/files over the Tauri event-name alphabet; no-events case", "4 C12"),
 "C13": ("exploration", "runtime monitor (differential): the real CLI on one project under replayable hash seeds (getrandom shim), OS-entropy processes, permuted directory order, --verbose/--visualize-deps and semantics-preserving source transformations; byte / declaration-multiset comparison",
         "held on everything observed: 60 (quick) / 2 000 (thorough) multi-file projects x 12/48 schedules x 4/8 transformations; evidence reports how many distinct outputs and declaration orders were actually seen (1 per project when the property holds)", "4 C13"),
 "C14": ("exploration", "runtime monitor (filesystem): snapshot of bytes/mtime_ns/inode around the second run plus strace log of mutating syscalls; forced runs from five cache states observed by content and mtime",
         "held on everything observed: 80 (quick) / 3 000 (thorough) projects of 1-6 files with 0-3 type mappings x CLI and build-script path x 3/12 unchanged re-runs under other hash seeds, and --force / force:true from absent, matching, mismatching, corrupt and wrong-version caches", "4 C14"),
 "C15": ("exploration", "runtime monitor (exit/abort + differential): real CLI and library entry point (catch_unwind) on generated exotic Rust, fuzzed attribute payloads, a real-world corpus and its mutations, and non-Rust text; failing batches bisected to one input; project vs project+unparsable-file comparison",
         "held on everything observed: 3 300 generated + 1 500 corpus + 1 450 mutated corpus inputs + 66 non-Rust + 150 isolation projects in quick; thorough: 100 000 generated, every .rs file of the repository, the offline registry and the toolchains (~13 000), 200 000 mutants, 6 000 isolation projects, a release-build pass and a Miri screen of the analysis layer", "4 C15"),
 "C16": ("exploration", "runtime monitor (filesystem): recursive snapshot of a whole sandbox before/after every run + strace classification of every mutating syscall by target path",
         "held on everything observed: 300 (quick) / 15 000 (thorough) sandboxes x 2-3 runs; output directory in 5 placements pre-populated with foreign and near-miss files, symlinks, stale reserved files; CLI absolute/relative/config, init and build-script paths; runs that find no commands; mode switches", "4 C16"),
 "C17": ("fault_enumeration", "runtime monitor with fault injection: strace -P <file> -e inject (openat EACCES, write ENOSPC, SIGKILL at open) and filesystem obstacles (EISDIR, ENOTDIR) on the real processes; recovery compared with the tool's own fresh generation",
         "enumerated: 8 targets x 5 fault kinds x 3 phases (first run, after edit, edit-then-revert) x 2 modes on the CLI path plus a build-script slice in quick; both paths completely in thorough; evidence reports fault points requested vs actually hit and the exit codes seen", "4 C17"),
 "C18": ("exploration", "runtime monitor (differential + reference): each project generated by the real CLI with and without the mapping table; mapped positions compared with the reference denotation, identifier scan for leftovers, declaration-multiset diff of everything else",
         "held on everything observed: 10 single-entry tables (plain and generic names) + 6 (quick) / 150 (thorough) multi-entry tables x ~60 constructor positions x 5 sites x 2 modes, with near-miss-named unrelated declarations in every project", "4 C18"),
 "C19": ("exploration", "runtime monitor: generated JSON documents through the real init / save_to_tauri_config and an exact JSON reader; effect-based observation of every cell of the flag/file/default matrix; snapshot diff for rejected settings",
         "held on everything observed: 300 (quick) / 40 000 (thorough) documents (nesting <= 6, i64/u64-range integers, decimals, Unicode, 7 plugins-section shapes), round trip of the ten persisted settings, all 2^5 flag subsets x 4 file contents x 2 config sources (286 cells), 16 rejection / override cases", "4 C19"),
 "C20": ("exploration", "runtime monitor: real ordering routines driven over enumerated graphs, each result judged by a closure/SCC oracle; crash = replayed and bisected",
         "held on every call observed: exhaustive over all digraphs (self-loops included) on <=3 nodes in quick and <=4 nodes in thorough (16 repeats), x all requested subsets x fresh hash seeds, plus 128 000 five-node graphs and 1.28 M random graphs to 12 nodes in thorough; evidence reports distinct result orders seen per case", "4 C20"),
}

NOT_YET = {
}

def main():
    props = [json.loads(l) for l in open(os.path.join(V, "properties.jsonl"))]
    checks = []
    for p in props:
        pid = p["id"]
        if pid in CHECKS:
            cat, tech, text, ref = CHECKS[pid]
            checks.append({
                "property_id": pid,
                "quick_cmd": "./check %s --tier quick" % pid,
                "thorough_cmd": "./check %s --tier thorough" % pid,
                "evidence_file": "/verif/evidence/%s.json" % pid,
                "replay_cmd_template": "./check replay {path}",
                "engine": "vh",
                "level_claimed": {"category": cat, "text": text, "design_ref": "DESIGN.md §" + ref},
                "level_note": TB,
                "technique": tech,
            })
    na = [{"property_id": p["id"], "reason": NOT_YET.get(p["id"], "check not built yet in this round; planned per DESIGN.md §4 (runtime monitoring applies)")}
          for p in props if p["id"] not in CHECKS]
    m = {
        "version": 1,
        "setup_cmd": "./setup.sh",
        "hooks": {
            "guard": "tauri_typegen_verif",
            "enable": "none needed: every monitor observes at the process boundary (files, exit status, syscalls, public API through /verif/driver); no source hooks exist",
            "baseline_off_cmd": "cd /repo && cargo test --workspace --no-fail-fast --offline",
            "source_commits": [],
            "add_only": True,
        },
        "engines": [
            {"name": "vh", "path": "/verif/vh", "serves_properties": sorted(CHECKS), "kind_free_text": "Python harness: workload generators, oracles (TS/Zod parser, resolver, shape model, mini-Zod, fs/strace monitors), verdict + evidence"},
            {"name": "vdriver", "path": "/verif/driver", "serves_properties": ["C08", "C14", "C15", "C16", "C17", "C19", "C20"], "kind_free_text": "Rust driver linking /repo's library through its public API (build-script path, config round trip, ordering routines)"},
            {"name": "oracle", "path": "/verif/oracle", "serves_properties": ["C04", "C05", "C06", "C10"], "kind_free_text": "per-run generated Rust crate using real serde_derive/serde_json/heck as reference"},
        ],
        "checks": checks,
        "not_applicable": na,
        "notes": "Runtime monitoring only. Exit codes: 0 held on everything observed, 1 VIOLATION, 2 INCONCLUSIVE (build failure, oracle self-test failure, watchdog, observed too little). Known findings: /verif/known_findings.json.",
    }
    json.dump(m, open(os.path.join(V, "MANIFEST.json"), "w"), indent=1)
    print("checks:", len(checks), "not_applicable:", len(na))

if __name__ == "__main__":
    main()
