#!/bin/bash
# Re-runs the quick check of every seeded regression's own property against the CURRENT checks and /repo HEAD.
# For each /verif/seeded/<NAME>: git -C /repo apply patch.diff; ./check <ID>; git -C /repo checkout -- .
# Writes seeded/<NAME>/final_check.log and prints a one-line verdict per seed.
cd /verif
trap 'git -C /repo checkout -- .' EXIT
for d in seeded/*/; do
  n=$(basename $d); id=${n%%_*}
  if grep -q '"retired"' $d/meta.json 2>/dev/null; then echo "$n: retired (see meta.json)"; continue; fi
  if ! git -C /repo apply --check /verif/$d/patch.diff 2>/dev/null; then echo "$n: PATCH DOES NOT APPLY"; continue; fi
  git -C /repo apply /verif/$d/patch.diff
  ./check $id --tier quick > $d/final_check.log 2>&1; rc=$?
  git -C /repo checkout -- .
  echo "$n: check $id exit=$rc violations=$(grep -c '^VIOLATION' $d/final_check.log) first: $(grep -m1 'signature:' $d/final_check.log | cut -c1-120)"
done
