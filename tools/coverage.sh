#!/bin/bash
# Measures which regions of /repo/src the checks' workloads actually reach (a reach diagnostic, not a check):
# builds the CLI and the driver with -Cinstrument-coverage (nightly, so the sysroot's llvm-cov matches), runs the given
# checks (default: all, quick tier) with evidence redirected, merges the raw profiles and prints per-file and
# per-function coverage of the tool's own sources.  Nothing here feeds a verdict.
# usage: tools/coverage.sh [tier] [Cxx ...]      output: /verif/coverage/{summary.txt,functions_uncovered.txt,report.json}
set -u
cd /verif
tier=${1:-quick}; shift || true
checks=${*:-C01 C02 C03 C04 C05 C06 C07 C08 C09 C10 C11 C12 C13 C14 C15 C16 C17 C18 C19 C20}
work=/dev/shm/verif-cov
rm -rf $work; mkdir -p $work/prof $work/ev
export VERIF_TARGET=/verif/target/cov VERIF_EVIDENCE_DIR=$work/ev
export RUSTUP_TOOLCHAIN=nightly RUSTFLAGS="-Cinstrument-coverage" CARGO_NET_OFFLINE=true
export LLVM_PROFILE_FILE="$work/prof/p-%16m.profraw"
bin=$(rustc --print sysroot)/lib/rustlib/x86_64-unknown-linux-gnu/bin
for c in $checks; do
  ./check $c --tier $tier > $work/$c.log 2>&1; echo "$c rc=$? $(tail -1 $work/$c.log | cut -c1-150)"
done
$bin/llvm-profdata merge -sparse $work/prof/*.profraw -o $work/all.profdata || exit 2
objs=""
for b in $VERIF_TARGET/repo/debug/cargo-tauri-typegen $VERIF_TARGET/repo/release/cargo-tauri-typegen $VERIF_TARGET/driver_repo/debug/vdriver $VERIF_TARGET/driver_repo/release/vdriver; do
  [ -x $b ] && objs="$objs -object $b"
done
objs=${objs# -object }
mkdir -p coverage
$bin/llvm-cov report $objs -instr-profile=$work/all.profdata --ignore-filename-regex='(/\.cargo/|/rustc/|/verif/|/\.rustup/)' > coverage/summary.txt 2>/dev/null
$bin/llvm-cov export $objs -instr-profile=$work/all.profdata --ignore-filename-regex='(/\.cargo/|/rustc/|/verif/|/\.rustup/)' -summary-only > coverage/report.json 2>/dev/null
$bin/llvm-cov show $objs -instr-profile=$work/all.profdata --ignore-filename-regex='(/\.cargo/|/rustc/|/verif/|/\.rustup/)' 2>/dev/null | python3 -c '
import re,sys
cur=None; un={}; tot={}
for line in sys.stdin:
    line=line.rstrip("\n")
    m=re.match(r"^(/repo/src/\S+):$", line)
    if m: cur=m.group(1)[len("/repo/"):]; continue
    m=re.match(r"^\s*(\d+)\|\s*([0-9.]+[kMG]?)?\|(.*)$", line)
    if not m or cur is None: continue
    ln,cnt,src=int(m.group(1)),m.group(2),m.group(3)
    if cnt is None: continue
    tot[cur]=tot.get(cur,0)+1
    if cnt=="0": un.setdefault(cur,[]).append((ln,src))
with open("coverage/uncovered_lines.txt","w") as o:
    for f in sorted(un):
        o.write("=== %s: %d of %d executable lines never executed\n"%(f,len(un[f]),tot[f]))
        for ln,src in un[f]: o.write("%5d| %s\n"%(ln,src[:150]))
print("executable lines: %d, never executed: %d"%(sum(tot.values()),sum(len(v) for v in un.values())))
'
tail -3 coverage/summary.txt
rm -rf $work
