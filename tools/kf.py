#!/usr/bin/env python3
"""Maintains /verif/known_findings.json. usage:
   kf.py open  <property> <signature> <what>
   kf.py fixed <property> <commit> <what failed>
   kf.py list"""
import json, sys, os
P = os.path.join(os.path.dirname(os.path.dirname(os.path.abspath(__file__))), "known_findings.json")
d = json.load(open(P)) if os.path.exists(P) else {"findings": []}
d.setdefault("findings", []); d.setdefault("fixed", [])
cmd = sys.argv[1]
if cmd == "open":
    prop, sig, what = sys.argv[2:5]
    d["findings"] = [f for f in d["findings"] if f["signature"] != sig]
    d["findings"].append({"property": prop, "signature": sig, "status": "open", "what": what})
elif cmd == "fixed":
    prop, commit, what = sys.argv[2:5]
    line = "fixed: property=%s %s %s" % (prop, commit, what)
    if line not in d["fixed"]:
        d["fixed"].append(line)
elif cmd == "list":
    for f in d["findings"]: print(f["property"], f["status"], f["signature"])
    for f in d["fixed"]: print(f)
d["findings"].sort(key=lambda f: (f["property"], f["signature"]))
json.dump(d, open(P, "w"), indent=1, ensure_ascii=False)
