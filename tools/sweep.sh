#!/bin/bash
# usage: sweep.sh <tier> <seed> [evidence-dir]   — runs all twenty checks at one VERIF_SEED and prints one line per check
tier=${1:-quick}; seed=${2:-1}; ev=${3:-}
cd /verif
bad=0
for n in $(seq -w 1 20); do
  if [ -n "$ev" ]; then export VERIF_EVIDENCE_DIR=$ev; fi
  out=$(VERIF_SEED=$seed ./check C$n --tier $tier 2>&1); rc=$?
  nv=$(echo "$out" | grep -c '^VIOLATION')
  echo "C$n seed=$seed tier=$tier rc=$rc violations=$nv known=$(echo "$out" | grep -c '^KNOWN-FINDING')"
  if [ $rc -ne 0 ] || [ $nv -ne 0 ]; then bad=1; echo "$out" | grep -E "VIOLATION|signature|what|inconclusive|Traceback|Error" | head -8; fi
done
[ $bad -eq 0 ] && echo "ALL ZERO seed=$seed" || echo "NOT ALL ZERO seed=$seed"
