#!/bin/bash
# usage: seedtest.sh <deliver-dir> <name e.g. C20_a> <PROPERTY> [more properties...]
# 1. copies the delivery to /verif/seeded/<name>; 2. confirms in a scratch worktree that the change compiles, keeps the
# repository's test suite green, and that the demo fails with / passes without it; 3. applies it to /repo, runs the quick
# checks of the given properties, and reverts /repo.
set -u
src=$1; name=$2; shift 2
dst=/verif/seeded/$name
mkdir -p $dst && cp $src/* $dst/ 2>/dev/null
wt=/dev/shm/mut1
head=$(git -C /repo rev-parse HEAD)
git -C $wt checkout -q -- . && git -C $wt checkout -q --detach $head
log=$dst/confirm.log; : > $log
if ! git -C $wt apply --check $dst/patch.diff 2>>$log; then echo "PATCH DOES NOT APPLY on $head" | tee -a $log; exit 3; fi
git -C $wt apply $dst/patch.diff
export CARGO_TARGET_DIR=$wt/target CARGO_NET_OFFLINE=true
demo=$(ls $dst/demo.* | head -1)
rundemo() { case $demo in *.sh) bash $demo $wt;; *.py) python3 $demo $wt;; esac; }
echo "== with change: build + tests" >> $log
(cd $wt && cargo build --offline >>$log 2>&1 && cargo test --workspace --no-fail-fast --offline 2>&1 | grep -E "^test result|FAILED|^error" >> $log)
tests_ok=$(grep -c "^test result: ok" $log); tests_bad=$(grep -cE "FAILED|^error" $log)
rundemo >> $log 2>&1; with=$?
git -C $wt checkout -q -- .
(cd $wt && cargo build --offline >>$log 2>&1)
rundemo >> $log 2>&1; without=$?
echo "with_change: tests_ok_lines=$tests_ok tests_bad_lines=$tests_bad demo_exit=$with ; without_change: demo_exit=$without" | tee -a $log
unset CARGO_TARGET_DIR
res=""
if [ $# -gt 0 ]; then
  trap 'git -C /repo checkout -- .' EXIT
  git -C /repo apply $dst/patch.diff || { echo "apply to /repo failed"; exit 3; }
  for p in "$@"; do
    (cd /verif && ./check $p --tier quick > $dst/check_$p.log 2>&1); rc=$?
    echo "check $p on mutant: exit=$rc $(grep -c '^VIOLATION' $dst/check_$p.log) violation line(s)" | tee -a $log
    grep -m3 "signature:" $dst/check_$p.log | tee -a $log
  done
  git -C /repo checkout -- .
  trap - EXIT
fi
python3 - "$dst" "$head" "$tests_ok" "$tests_bad" "$with" "$without" <<'PY'
import json, sys, os, glob, re
dst, head, tok, tbad, w, wo = sys.argv[1:7]
mp = os.path.join(dst, "meta.json")
try:
    meta = json.load(open(mp))
except Exception:
    meta = {}
checks = {}
for f in glob.glob(os.path.join(dst, "check_*.log")):
    txt = open(f, errors="replace").read()
    checks[os.path.basename(f)[6:-4]] = {"violation_lines": len(re.findall(r"^VIOLATION", txt, re.M)), "first_signatures": re.findall(r"signature: (.*)", txt)[:3]}
meta["confirmed_by_verifier"] = {
    "repo_head": head, "how": "tools/seedtest.sh: patch applied in a scratch worktree of /repo HEAD; cargo build + cargo test --workspace --no-fail-fast --offline; demo run with and without the patch; then git -C /repo apply, ./check <ID> --tier quick, git -C /repo checkout -- .",
    "test_suite_ok_result_lines": int(tok), "test_suite_failure_lines": int(tbad), "demo_exit_with_change": int(w), "demo_exit_without_change": int(wo),
    "quick_checks_on_mutant_at_time_of_confirmation": checks}
json.dump(meta, open(mp, "w"), indent=1)
PY
find $wt -maxdepth 1 -name "test_output_*" -type d -empty -delete 2>/dev/null
git -C /repo status --short | head -3
