#!/bin/bash
# usage: firstrun.sh <patch> <worktree> <Cxx...> — applies a delivered patch in a scratch worktree (at /repo HEAD) and runs the quick checks against it
patch=$1; wt=$2; shift 2
git -C $wt checkout -q -- . && git -C $wt checkout -q --detach $(git -C /repo rev-parse HEAD)
git -C $wt apply $patch || { echo "PATCH DOES NOT APPLY"; exit 3; }
cd /verif
for c in "$@"; do
  out=$(VERIF_REPO=$wt VERIF_TARGET=$wt/target VERIF_EVIDENCE_DIR=/dev/shm/ev_$(basename $wt) ./check $c --tier quick 2>&1); rc=$?
  echo "$c rc=$rc viol=$(echo "$out" | grep -c '^VIOLATION')"
  echo "$out" | grep -E "signature:|Traceback|Error" | sort | uniq -c | sort -rn | head -4
done
git -C $wt checkout -q -- .
