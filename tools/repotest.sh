#!/bin/bash
# runs the repository's baseline test suite (hooks: none exist) and prints a one-line summary
cd /repo && cargo test --workspace --no-fail-fast --offline 2>&1 | grep -E "^test result|FAILED|panicked at|^error" | head -40
find /repo -maxdepth 1 -name 'test_output_*' -type d -empty -delete 2>/dev/null || true
