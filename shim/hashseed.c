/* LD_PRELOAD shim: answers getrandom() from a xorshift64* stream seeded by
 * VERIF_HASH_SEED, so that std::collections::hash_map::RandomState seeds (and
 * therefore HashMap/HashSet iteration orders) become a replayable "schedule".
 * Without VERIF_HASH_SEED the real syscall is used. */
#define _GNU_SOURCE
#include <stdint.h>
#include <stdlib.h>
#include <string.h>
#include <sys/types.h>
#include <unistd.h>
#include <sys/syscall.h>

static uint64_t state;
static int inited;

static uint64_t next64(void) {
    state ^= state >> 12; state ^= state << 25; state ^= state >> 27;
    return state * 0x2545F4914F6CDD1DULL;
}

ssize_t getrandom(void *buf, size_t len, unsigned int flags) {
    if (!inited) {
        const char *s = getenv("VERIF_HASH_SEED");
        inited = 1;
        if (s && *s) {
            state = strtoull(s, 0, 10) * 0x9E3779B97F4A7C15ULL + 0xD1B54A32D192ED03ULL;
            if (!state) state = 1;
            inited = 2;
        }
    }
    if (inited != 2) return syscall(SYS_getrandom, buf, len, flags);
    unsigned char *p = buf; size_t n = len;
    while (n) { uint64_t v = next64(); size_t k = n < 8 ? n : 8; memcpy(p, &v, k); p += k; n -= k; }
    return (ssize_t)len;
}
