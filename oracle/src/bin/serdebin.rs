fn main() {}
