//! reference for Tauri's argument renaming: tauri-macros applies heck's ToLowerCamelCase / ToSnakeCase.
//! stdin: one identifier per line; stdout: name \t lowerCamel \t snake \t UpperCamel \t kebab \t SHOUTY_SNAKE \t SHOUTY-KEBAB
use heck::*;
use std::io::BufRead;
fn main() {
    for l in std::io::stdin().lock().lines() {
        let n = l.unwrap();
        println!("{}\t{}\t{}\t{}\t{}\t{}\t{}", n, n.to_lower_camel_case(), n.to_snake_case(), n.to_upper_camel_case(),
                 n.to_kebab_case(), n.to_shouty_snake_case(), n.to_shouty_kebab_case());
    }
}
